(* C35 — multi-key reads return results aligned with the requested keys. Proved on DE.MultiGet. *)
From Coq Require Import NArith List Bool Lia.
From DE Require Import Val KV MultiGet proofs.C22.
Import ListNotations.
Open Scope N_scope.

Definition step (m : kv) (e : key * value) : kv := set (fst e) (snd e) m.

Lemma mem_key_cons k k1 ks : mem_key k (k1 :: ks) = bytes_eqb k k1 || mem_key k ks.
Proof. reflexivity. Qed.

(* HashMap collect of entries that all agree with the store *)
Lemma collect_lookup (st : kv) : forall es m k,
  (forall k' v, In (k', v) es -> lookup st k' = Some v) ->
  lookup (fold_left step es m) k = if mem_key k (map fst es) then lookup st k else lookup m k.
Proof.
  induction es as [|[k1 v1] es IH]; intros m k Hes; cbn [fold_left map fst]; [reflexivity|].
  rewrite IH by (intros k' v Hin; apply Hes; right; exact Hin).
  rewrite mem_key_cons. unfold step at 1. cbn [fst snd].
  destruct (bytes_eqb_spec k k1) as [->|Hne]; cbn [orb].
  - rewrite lookup_set_same. rewrite (Hes k1 v1 (or_introl eq_refl)). destruct (mem_key k1 (map fst es)); reflexivity.
  - rewrite lookup_set_other by congruence. reflexivity.
Qed.

Lemma mem_key_true_iff k ks : mem_key k ks = true <-> In k ks.
Proof.
  unfold mem_key. rewrite existsb_exists. split.
  - intros [x [Hin Heq]]. destruct (bytes_eqb_spec k x); [subst; exact Hin | discriminate].
  - intros Hin. exists k. split; [exact Hin | apply bytes_eqb_refl].
Qed.

(* the general realignment fact: ANY list of entries that (1) only contains true bindings of the store and (2) contains
   every requested key that is present — in any order, with any duplicates, with extra keys — realigns to the
   position-wise lookup of the requested keys *)
Lemma collect_agrees (st : kv) (keys : list key) (es : list (key * value)) :
  (forall k v, In (k, v) es -> lookup st k = Some v) ->
  (forall k v, In k keys -> lookup st k = Some v -> In k (map fst es)) ->
  forall k, In k keys -> lookup (collect es) k = lookup st k.
Proof.
  intros Hsound Hcomplete k Hk.
  unfold collect. fold step. rewrite (collect_lookup st es [] k Hsound). cbn [lookup].
  destruct (mem_key k (map fst es)) eqn:Hm; [reflexivity|].
  destruct (lookup st k) as [v|] eqn:Hl; [|reflexivity].
  exfalso. pose proof (Hcomplete k v Hk Hl) as Hin. apply mem_key_true_iff in Hin. congruence.
Qed.

Theorem realign_general (st : kv) (keys : list key) (es : list (key * value)) :
  (forall k v, In (k, v) es -> lookup st k = Some v) ->
  (forall k v, In k keys -> lookup st k = Some v -> In k (map fst es)) ->
  realign_embedded keys es = map (lookup st) keys.
Proof.
  intros Hsound Hcomplete. unfold realign_embedded. apply map_ext_in. intros k Hk.
  apply (collect_agrees st keys es Hsound Hcomplete k Hk).
Qed.

Lemma read_from_sm_sound st keys k v : In (k, v) (read_from_sm st keys) -> lookup st k = Some v.
Proof.
  unfold read_from_sm. rewrite in_flat_map. intros [k' [_ Hin]].
  destruct (lookup st k') as [v'|] eqn:Hl; cbn [In] in Hin; [|contradiction].
  destruct Hin as [Heq|[]]. inversion Heq; subst. exact Hl.
Qed.

Lemma read_from_sm_complete st keys k v : In k keys -> lookup st k = Some v -> In k (map fst (read_from_sm st keys)).
Proof.
  intros Hk Hl. apply in_map_iff. exists (k, v). split; [reflexivity|].
  unfold read_from_sm. apply in_flat_map. exists k. split; [exact Hk|]. rewrite Hl. left. reflexivity.
Qed.

Theorem realign_correct st keys : realign_embedded keys (read_from_sm st keys) = map (lookup st) keys.
Proof.
  apply realign_general; [apply read_from_sm_sound | apply read_from_sm_complete].
Qed.

Lemma realign_grpc_embedded keys es :
  realign_grpc keys es =
  map (fun ko => match snd ko with Some v => Some (fst ko, v) | None => None end) (combine keys (realign_embedded keys es)).
Proof.
  unfold realign_grpc, realign_embedded. induction keys as [|k keys IH]; cbn [map combine fst snd]; [reflexivity|].
  rewrite IH. reflexivity.
Qed.

Theorem realign_grpc_correct st keys :
  realign_grpc keys (read_from_sm st keys) =
  map (fun k => match lookup st k with Some v => Some (k, v) | None => None end) keys.
Proof.
  unfold realign_grpc. apply map_ext_in. intros k Hk.
  rewrite (collect_agrees st keys (read_from_sm st keys) (read_from_sm_sound st keys) (read_from_sm_complete st keys) k Hk).
  reflexivity.
Qed.

(* fast_path_batch_read_response over position-aligned values = the sparse found-keys list *)
Theorem fast_path_correct st keys : fast_path keys (sm_get_multi st keys) = read_from_sm st keys.
Proof.
  unfold fast_path, sm_get_multi, read_from_sm. induction keys as [|k keys IH]; cbn [map combine flat_map fst snd]; [reflexivity|].
  rewrite IH. reflexivity.
Qed.

(* ---- every read path: one result per requested key, in request order, value or absent ---- *)
Definition aligned (st : kv) (keys : list key) (r : list (option value)) : Prop :=
  length r = length keys /\ forall i, (i < length keys)%nat -> nth i r None = lookup st (nth i keys []).

Lemma map_lookup_aligned st keys : aligned st keys (map (lookup st) keys).
Proof. exact (get_multi_aligned st keys). Qed.

Theorem embedded_paths_aligned st keys :
  (exists r, embedded_direct st keys = Some r /\ aligned st keys r) /\
  (exists r, embedded_cmd_path st keys = Some r /\ aligned st keys r).
Proof.
  split; eexists; (split; [reflexivity|]).
  - apply map_lookup_aligned.
  - rewrite realign_correct. apply map_lookup_aligned.
Qed.

Definition values_of (r : list (option (key * value))) : list (option value) := map (option_map snd) r.

Theorem grpc_paths_aligned st keys :
  keys <> [] ->
  (exists r, grpc_cmd_path st keys = Some r /\ aligned st keys (values_of r) /\
             forall i k v, nth_error r i = Some (Some (k, v)) -> nth_error keys i = Some k) /\
  (exists r, grpc_fast_path st keys = Some r /\ aligned st keys (values_of r) /\
             forall i k v, nth_error r i = Some (Some (k, v)) -> nth_error keys i = Some k).
Proof.
  intros Hne.
  assert (Hcore : forall r, r = map (fun k => match lookup st k with Some v => Some (k, v) | None => None end) keys ->
                   aligned st keys (values_of r) /\
                   forall i k v, nth_error r i = Some (Some (k, v)) -> nth_error keys i = Some k).
  { intros r ->. split.
    - unfold values_of. rewrite map_map.
      replace (map (fun x => option_map snd match lookup st x with Some v => Some (x, v) | None => None end) keys)
        with (map (lookup st) keys); [apply map_lookup_aligned|].
      apply map_ext. intros k. destruct (lookup st k); reflexivity.
    - intros i k v. revert i. induction keys as [|k0 keys' IH]; intros [|i]; cbn [map nth_error]; try discriminate.
      + destruct (lookup st k0); intros H; inversion H; reflexivity.
      + destruct keys' as [|k1 keys'']; [destruct i; discriminate|]. apply IH. discriminate. }
  unfold grpc_cmd_path, grpc_fast_path. destruct keys as [|k0 keys']; [congruence|].
  split; eexists; (split; [reflexivity|]); apply Hcore.
  - apply realign_grpc_correct.
  - rewrite fast_path_correct. apply realign_grpc_correct.
Qed.

(* ---- non-vacuity ---- *)
Example ex_duplicates_missing_empty :
  let st := [([1], []); ([2], [5]); ([], [9])] in
  let keys := [[2]; [3]; [1]; [2]; []; [3]; [1]] in
  read_from_sm st keys = [([2], [5]); ([1], []); ([2], [5]); ([], [9]); ([1], [])] /\
  embedded_cmd_path st keys = Some [Some [5]; None; Some []; Some [5]; Some [9]; None; Some []] /\
  embedded_direct st keys = embedded_cmd_path st keys /\
  grpc_cmd_path st keys = Some [Some ([2], [5]); None; Some ([1], []); Some ([2], [5]); Some ([], [9]); None; Some ([1], [])] /\
  grpc_fast_path st keys = grpc_cmd_path st keys /\
  grpc_cmd_path st [] = None.
Proof. vm_compute. repeat split. Qed.

Example ex_realign_general_any_order :
  let st := [([1], [7]); ([2], [8])] in
  realign_embedded [[2]; [3]; [1]; [2]] [([1], [7]); ([2], [8]); ([1], [7])] = [Some [8]; None; Some [7]; Some [8]].
Proof. vm_compute. reflexivity. Qed.
