(* C07 — "A follower never treats an entry as committed unless the current leader's log has the
   identical entry at that index; leftover entries from a deposed leader are never applied."

   Stated on the plain-log spec (PLog.v).  The follower (after the fix) computes its new commit index as
     min(leader_commit, min(last index of its log after the request, prev + |entries of the request|))
   and only moves it forward (Repl.follower_commit / follower_handle).  We prove that every index at or
   below that bound (and above both purge boundaries) holds the leader's entry, and that the old bound
   (last index of the follower's log alone) does not have this property. *)
From Coq Require Import NArith List Bool Lia.
From DE Require Import Val BufLog PLog Repl.
Import ListNotations.
Open Scope N_scope.

Definition p_entry (p : plog) (i : N) : option entry := lookup (pents p) i.

(* the request (prev, pterm, es) is what a leader with log L builds: es is the slice of L right after
   prev, pterm is L's term at prev (0 when prev = 0) *)
Definition built_from (L : plog) (prev pterm : N) (es : list entry) : Prop :=
  contig (prev + 1) es /\ (forall e, In e es -> p_entry L (e_idx e) = Some e) /\
  ((prev = 0 /\ pterm = 0) \/ (0 < prev /\ p_term_at L prev = Some pterm)).

(* Log Matching at prev, as the Raft invariant gives it once (prev, pterm) matches on both sides: the
   two logs are identical at every index <= prev that either of them still holds above its purge
   boundary *)
Definition agree_upto (F L : plog) (n : N) : Prop :=
  forall i, i <= n -> pb_idx F < i -> pb_idx L < i -> p_entry F i = p_entry L i.

(* same (index, term) => same entry, between follower and leader (the other half of Log Matching) *)
Definition same_term_same_entry (F L : plog) : Prop :=
  forall i e e', p_entry F i = Some e -> p_entry L i = Some e' -> e_term e = e_term e' -> e = e'.

(* ------------------------------------------------------------------ *)
(* lookup over lists                                                    *)
(* ------------------------------------------------------------------ *)
Lemma lookup_some l i e : lookup l i = Some e -> In e l /\ e_idx e = i.
Proof.
  unfold lookup. intro H. apply find_some in H. destruct H as [Hin Heq].
  apply N.eqb_eq in Heq. split; assumption.
Qed.

Lemma lookup_app l1 l2 i :
  lookup (l1 ++ l2) i = match lookup l1 i with Some e => Some e | None => lookup l2 i end.
Proof.
  unfold lookup. induction l1 as [|a l1 IH]; cbn [app find].
  - reflexivity.
  - destruct (e_idx a =? i); [reflexivity | exact IH].
Qed.

Lemma lookup_filter_lt l d i :
  i < d -> lookup (filter (fun e => e_idx e <? d) l) i = lookup l i.
Proof.
  intro Hid. unfold lookup. induction l as [|a l IH]; cbn [filter find].
  - reflexivity.
  - destruct (e_idx a <? d) eqn:Ea; cbn [find].
    + destruct (e_idx a =? i); [reflexivity | exact IH].
    + destruct (e_idx a =? i) eqn:Ei.
      * apply N.eqb_eq in Ei. apply N.ltb_ge in Ea. lia.
      * exact IH.
Qed.

Lemma lookup_filter_ge l d i :
  d <= i -> lookup (filter (fun e => e_idx e <? d) l) i = None.
Proof.
  intro Hdi. unfold lookup. induction l as [|a l IH]; cbn [filter find].
  - reflexivity.
  - destruct (e_idx a <? d) eqn:Ea; cbn [find].
    + destruct (e_idx a =? i) eqn:Ei.
      * apply N.eqb_eq in Ei. apply N.ltb_lt in Ea. lia.
      * exact IH.
    + exact IH.
Qed.

(* ------------------------------------------------------------------ *)
(* contiguous lists                                                     *)
(* ------------------------------------------------------------------ *)
Lemma contig_lookup_below first es i : contig first es -> i < first -> lookup es i = None.
Proof.
  unfold lookup. revert first. induction es as [|a es IH]; intros first Hc Hlt; cbn [find].
  - reflexivity.
  - cbn [contig] in Hc. destruct Hc as [Ha Hc].
    destruct (e_idx a =? i) eqn:Ei.
    + apply N.eqb_eq in Ei. lia.
    + apply (IH (first + 1)); [exact Hc | lia].
Qed.

Lemma contig_lookup_in first es i :
  contig first es -> first <= i -> i < first + N.of_nat (length es) ->
  exists e, lookup es i = Some e.
Proof.
  unfold lookup. revert first. induction es as [|a es IH]; intros first Hc Hlo Hhi.
  - cbn [length] in Hhi. change (N.of_nat 0) with 0 in Hhi. lia.
  - cbn [contig] in Hc. destruct Hc as [Ha Hc]. cbn [find].
    destruct (e_idx a =? i) eqn:Ei.
    + exists a. reflexivity.
    + apply N.eqb_neq in Ei. cbn [length] in Hhi. rewrite Nat2N.inj_succ in Hhi.
      apply (IH (first + 1)); [exact Hc | lia | lia].
Qed.

Lemma contig_app first l1 l2 :
  contig first (l1 ++ l2) -> contig first l1 /\ contig (first + N.of_nat (length l1)) l2.
Proof.
  revert first. induction l1 as [|a l1 IH]; intros first Hc; cbn [app length contig] in *.
  - change (N.of_nat 0) with 0. rewrite N.add_0_r. split; [exact I | exact Hc].
  - destruct Hc as [Ha Hc]. destruct (IH _ Hc) as [H1 H2].
    rewrite Nat2N.inj_succ.
    replace (first + N.succ (N.of_nat (length l1))) with (first + 1 + N.of_nat (length l1)) by lia.
    split; [split; assumption | exact H2].
Qed.

(* ------------------------------------------------------------------ *)
(* drop_agreeing: the request splits into an already-held prefix and the part to append *)
(* ------------------------------------------------------------------ *)
Lemma drop_agreeing_split p es :
  exists pre, es = pre ++ drop_agreeing p es /\
              forall e, In e pre -> p_term_at p (e_idx e) = Some (e_term e).
Proof.
  induction es as [|a es IH]; cbn [drop_agreeing].
  - exists []. split; [reflexivity | intros e []].
  - destruct (p_term_at p (e_idx a)) as [t|] eqn:Et.
    + destruct ((t =? e_term a) && (e_idx a <=? p_last_idx p)) eqn:Ec.
      * destruct IH as [pre [Hes Hpre]]. exists (a :: pre). split.
        -- cbn [app]. f_equal. exact Hes.
        -- intros e [<- | Hin].
           ++ apply andb_true_iff in Ec. destruct Ec as [Ec _]. apply N.eqb_eq in Ec.
              rewrite Et, Ec. reflexivity.
           ++ apply Hpre. exact Hin.
      * exists []. split; [reflexivity | intros e []].
    + exists []. split; [reflexivity | intros e []].
Qed.

(* an entry of the request that the follower "already holds" (same index and term, above the purge
   boundary) is the leader's entry *)
Lemma held_entry_is_leaders F L e :
  same_term_same_entry F L ->
  p_entry L (e_idx e) = Some e ->
  p_term_at F (e_idx e) = Some (e_term e) ->
  pb_idx F < e_idx e ->
  p_entry F (e_idx e) = Some e.
Proof.
  intros Hs HL Ht Hpb. unfold p_term_at in Ht. unfold p_entry in *.
  destruct (lookup (pents F) (e_idx e)) as [e'|] eqn:El.
  - injection Ht as Ht. f_equal. apply (Hs (e_idx e) e' e); [exact El | exact HL | exact Ht].
  - destruct (e_idx e =? pb_idx F) eqn:Ei.
    + apply N.eqb_eq in Ei. lia.
    + rewrite andb_false_r in Ht. discriminate Ht.
Qed.

(* ------------------------------------------------------------------ *)
(* the main statement                                                   *)
(* ------------------------------------------------------------------ *)
Theorem follower_agrees_upto_covered :
  forall F L prev pterm es,
    p_wf F -> p_wf L -> built_from L prev pterm es -> agree_upto F L prev -> same_term_same_entry F L ->
    p_prev_matches F prev pterm = true -> (prev = 0 -> pb_idx F = 0) ->
    let F' := fst (p_filter_append F prev pterm es) in
    agree_upto F' L (prev + N.of_nat (length es)).
Proof.
  intros F L prev pterm es HwfF HwfL Hb Ha Hs Hpm Hp0 F'.
  destruct Hb as [Hc [HinL Hpt]].
  destruct (drop_agreeing_split F es) as [pre [Hes Hpre]].
  assert (Hlen : length es = (length pre + length (drop_agreeing F es))%nat)
    by (rewrite Hes at 1; apply app_length).
  assert (Hc2 : contig (prev + 1) (pre ++ drop_agreeing F es)) by (rewrite <- Hes; exact Hc).
  apply contig_app in Hc2. destruct Hc2 as [Hcpre Hcd].
  assert (Hin_pre : forall e, In e pre -> In e es)
    by (intros e He; rewrite Hes; apply in_or_app; left; exact He).
  assert (Hin_d : forall e, In e (drop_agreeing F es) -> In e es)
    by (intros e He; rewrite Hes; apply in_or_app; right; exact He).
  (* below the first entry that is appended, the (unchanged) follower log agrees with the leader *)
  assert (Hlow : forall i, i < prev + 1 + N.of_nat (length pre) -> pb_idx F < i -> pb_idx L < i ->
                           p_entry F i = p_entry L i).
  { intros i Hi HFi HLi.
    destruct (N.le_gt_cases i prev) as [Hle | Hgt].
    - apply Ha; assumption.
    - destruct (contig_lookup_in (prev + 1) pre i Hcpre) as [e He]; [lia | exact Hi |].
      apply lookup_some in He. destruct He as [Hein Heidx]. subst i.
      rewrite (HinL e (Hin_pre e Hein)).
      apply (held_entry_is_leaders F L e Hs).
      + apply HinL. apply Hin_pre. exact Hein.
      + apply Hpre. exact Hein.
      + exact HFi. }
  subst F'. unfold p_filter_append. rewrite Hpm.
  destruct (drop_agreeing F es) as [|d rest] eqn:ED; cbn [fst].
  - (* nothing to append: the log is unchanged and es = pre *)
    intros i Hi HFi HLi. apply Hlow; try assumption.
    rewrite Hlen in Hi. cbn [length] in Hi. lia.
  - (* truncate from d, append d :: rest *)
    intros i Hi HFi HLi. cbn [pb_idx] in HFi.
    assert (Hd : e_idx d = prev + 1 + N.of_nat (length pre)) by (cbn [contig] in Hcd; apply Hcd).
    unfold p_entry at 1. cbn [pents]. rewrite lookup_app.
    destruct (N.lt_ge_cases i (e_idx d)) as [Hlt | Hge].
    + rewrite (lookup_filter_lt (pents F) (e_idx d) i Hlt).
      assert (Hg : p_entry F i = p_entry L i) by (apply Hlow; [lia | exact HFi | exact HLi]).
      unfold p_entry at 1 in Hg.
      destruct (lookup (pents F) i) as [e|] eqn:El.
      * exact Hg.
      * rewrite <- Hg. apply (contig_lookup_below _ _ _ Hcd). lia.
    + rewrite (lookup_filter_ge (pents F) (e_idx d) i Hge).
      destruct (contig_lookup_in _ (d :: rest) i Hcd) as [e He]; [lia | |].
      { rewrite Hlen, Nat2N.inj_add in Hi. lia. }
      rewrite He. apply lookup_some in He. destruct He as [Hein Heidx]. subst i.
      symmetry. apply HinL. apply Hin_d. exact Hein.
Qed.

(* hence the follower's new commit index only covers entries identical to the leader's *)
Theorem follower_commit_matches :
  forall F L prev pterm es leader_commit my_commit c,
    p_wf F -> p_wf L -> built_from L prev pterm es -> agree_upto F L prev -> same_term_same_entry F L ->
    p_prev_matches F prev pterm = true -> (prev = 0 -> pb_idx F = 0) ->
    let F' := fst (p_filter_append F prev pterm es) in
    follower_commit my_commit (N.min (p_last_entry_id F') (prev + N.of_nat (length es))) leader_commit = Some c ->
    forall i, i <= c -> pb_idx F' < i -> pb_idx L < i -> p_entry F' i = p_entry L i.
Proof.
  intros F L prev pterm es leader_commit my_commit c HwfF HwfL Hb Ha Hs Hpm Hp0 F' Hfc i Hi HFi HLi.
  pose proof (follower_agrees_upto_covered F L prev pterm es HwfF HwfL Hb Ha Hs Hpm Hp0) as Hcov.
  cbv zeta in Hcov. fold F' in Hcov.
  apply Hcov; [| exact HFi | exact HLi].
  unfold follower_commit in Hfc.
  destruct (my_commit <? leader_commit); [| discriminate Hfc].
  injection Hfc as Hfc. lia.
Qed.

(* ------------------------------------------------------------------ *)
(* concrete logs                                                        *)
(* ------------------------------------------------------------------ *)
Definition mk (i t pl : N) : entry := {| e_idx := i; e_term := t; e_pl := pl |}.

(* the common, committed prefix: entries 1..5 of term 1 *)
Definition common5 : list entry := [mk 1 1 101; mk 2 1 102; mk 3 1 103; mk 4 1 104; mk 5 1 105].

(* follower: the prefix plus stale entries 6,7 written by the deposed term-1 leader *)
Definition ce_F : plog := {| pb_idx := 0; pb_term := 0; pents := common5 ++ [mk 6 1 906; mk 7 1 907] |}.
(* leader of term 3: the prefix plus its own entries 6,7 *)
Definition ce_L : plog := {| pb_idx := 0; pb_term := 0; pents := common5 ++ [mk 6 3 306; mk 7 3 307] |}.

Ltac solve_wf :=
  unfold p_wf; cbn; repeat split; lia.

Ltac solve_stse :=
  let i := fresh "i" in let e := fresh "e" in let e' := fresh "e'" in
  let H1 := fresh "H1" in let H2 := fresh "H2" in let Ht := fresh "Ht" in
  intros i e e' H1 H2 Ht;
  apply lookup_some in H1; apply lookup_some in H2;
  destruct H1 as [H1 <-]; destruct H2 as [H2 Hi];
  cbn [pents app In common5] in H1, H2;
  repeat (destruct H1 as [<- | H1]); try contradiction;
  repeat (destruct H2 as [<- | H2]); try contradiction;
  cbn in Hi, Ht; try discriminate; reflexivity.

(* the old rule (bound = last index of the follower's log) is NOT sound *)
Example old_rule_unsound : exists F L prev pterm es leader_commit,
    p_wf F /\ p_wf L /\ built_from L prev pterm es /\ agree_upto F L prev /\ same_term_same_entry F L /\
    p_prev_matches F prev pterm = true /\
    let F' := fst (p_filter_append F prev pterm es) in
    exists c i, follower_commit 0 (p_last_entry_id F') leader_commit = Some c /\ i <= c /\
                p_entry F' i <> p_entry L i /\ p_entry F' i <> None.
Proof.
  exists ce_F, ce_L, 2, 1, [mk 3 1 103; mk 4 1 104], 7.
  split; [solve_wf |]. split; [solve_wf |].
  split.
  { unfold built_from. split; [cbn; repeat split |]. split.
    - intros e [<- | [<- | []]]; vm_compute; reflexivity.
    - right. split; [lia | vm_compute; reflexivity]. }
  split.
  { intros i Hi HF HL. cbn [pb_idx ce_F ce_L] in HF, HL.
    assert (Hcases : i = 1 \/ i = 2) by lia.
    destruct Hcases as [-> | ->]; vm_compute; reflexivity. }
  split; [solve_stse |].
  split; [vm_compute; reflexivity |].
  cbv zeta. exists 7, 6.
  split; [vm_compute; reflexivity |].
  split; [lia |].
  split; vm_compute; intro H; discriminate H.
Qed.

(* the same situation under the fixed rule: the bound is min(7, 2 + 2) = 4 and the stale entries stay
   uncommitted *)
Example fixed_rule_on_counterexample :
  let F' := fst (p_filter_append ce_F 2 1 [mk 3 1 103; mk 4 1 104]) in
  follower_commit 0 (N.min (p_last_entry_id F') (2 + N.of_nat (length [mk 3 1 103; mk 4 1 104]))) 7 = Some 4.
Proof. vm_compute. reflexivity. Qed.

(* the hypotheses of follower_commit_matches are satisfiable in a conflict-truncation case: the follower
   holds 1..4 of term 1 and a stale tail 5,6,7 of term 2; the term-3 leader holds 1..4 and its own 5,6,7;
   the request (prev = 2, pterm = 1) carries the leader's 3,4,5,6.  3 and 4 are skipped, the log is
   truncated from 5 (the stale 7 disappears too), 5 and 6 are appended, and the commit index becomes 6. *)
Definition tr_F : plog :=
  {| pb_idx := 0; pb_term := 0;
     pents := [mk 1 1 101; mk 2 1 102; mk 3 1 103; mk 4 1 104; mk 5 2 905; mk 6 2 906; mk 7 2 907] |}.
Definition tr_L : plog :=
  {| pb_idx := 0; pb_term := 0;
     pents := [mk 1 1 101; mk 2 1 102; mk 3 1 103; mk 4 1 104; mk 5 3 305; mk 6 3 306; mk 7 3 307] |}.
Definition tr_es : list entry := [mk 3 1 103; mk 4 1 104; mk 5 3 305; mk 6 3 306].

Example hypotheses_satisfiable_with_truncation :
  p_wf tr_F /\ p_wf tr_L /\ built_from tr_L 2 1 tr_es /\ agree_upto tr_F tr_L 2 /\
  same_term_same_entry tr_F tr_L /\ p_prev_matches tr_F 2 1 = true /\ (2 = 0 -> pb_idx tr_F = 0) /\
  let F' := fst (p_filter_append tr_F 2 1 tr_es) in
  drop_agreeing tr_F tr_es = [mk 5 3 305; mk 6 3 306] /\
  pents F' = [mk 1 1 101; mk 2 1 102; mk 3 1 103; mk 4 1 104; mk 5 3 305; mk 6 3 306] /\
  follower_commit 0 (N.min (p_last_entry_id F') (2 + N.of_nat (length tr_es))) 9 = Some 6 /\
  (forall i, i <= 6 -> pb_idx F' < i -> pb_idx tr_L < i -> p_entry F' i = p_entry tr_L i).
Proof.
  assert (Hwf1 : p_wf tr_F) by solve_wf.
  assert (Hwf2 : p_wf tr_L) by solve_wf.
  assert (Hb : built_from tr_L 2 1 tr_es).
  { unfold built_from. split; [cbn; repeat split |]. split.
    - intros e [<- | [<- | [<- | [<- | []]]]]; vm_compute; reflexivity.
    - right. split; [lia | vm_compute; reflexivity]. }
  assert (Ha : agree_upto tr_F tr_L 2).
  { intros i Hi HF HL. cbn [pb_idx tr_F tr_L] in HF, HL.
    assert (Hcases : i = 1 \/ i = 2) by lia.
    destruct Hcases as [-> | ->]; vm_compute; reflexivity. }
  assert (Hs : same_term_same_entry tr_F tr_L).
  { unfold tr_F, tr_L. solve_stse. }
  assert (Hpm : p_prev_matches tr_F 2 1 = true) by (vm_compute; reflexivity).
  assert (Hp0 : 2 = 0 -> pb_idx tr_F = 0) by (intros _; reflexivity).
  repeat (split; [assumption |]).
  cbv zeta.
  split; [vm_compute; reflexivity |].
  split; [vm_compute; reflexivity |].
  assert (Hfc : follower_commit 0 (N.min (p_last_entry_id (fst (p_filter_append tr_F 2 1 tr_es)))
                                          (2 + N.of_nat (length tr_es))) 9 = Some 6)
    by (vm_compute; reflexivity).
  split; [exact Hfc |].
  exact (follower_commit_matches tr_F tr_L 2 1 tr_es 9 0 6 Hwf1 Hwf2 Hb Ha Hs Hpm Hp0 Hfc).
Qed.

Print Assumptions follower_agrees_upto_covered.
Print Assumptions follower_commit_matches.
Print Assumptions old_rule_unsound.
Print Assumptions hypotheses_satisfiable_with_truncation.
