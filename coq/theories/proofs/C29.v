(* C29 — each write gets one correct response.  Proved on DE.LeaderQ (model of the leader's client
   bookkeeping in raft_role/leader_state.rs, validated against the real LeaderState by the leaderq probe). *)
From Coq Require Import NArith List Bool Lia Arith.
From DE Require Import Val LeaderQ proofs.LeaderQLemmas.
Import ListNotations.
Open Scope N_scope.

(* entry at index k of the log is the entry of client request id *)
Definition ent (log : list (N * option N)) (k id : N) : Prop :=
  1 <= k /\ exists t, nth_error log (N.to_nat (k - 1)) = Some (t, Some id).

Ltac splits := repeat match goal with |- _ /\ _ => split end.

Lemma ent_app log l k id : ent log k id -> ent (log ++ l) k id.
Proof.
  intros [Hk [t Ht]]. split; [exact Hk|]. exists t.
  rewrite nth_error_app1; [exact Ht|]. apply nth_error_Some. congruence.
Qed.

Definition aligned (log : list (N * option N)) (b : batch) : Prop :=
  b_end b + 1 = b_start b + N.of_nat (length (b_ids b)) /\
  forall i id, nth_error (b_ids b) i = Some id -> ent log (b_start b + N.of_nat i) id.

Definition wok (s : lq) (r : rsp) : Prop :=
  exists idx f, ent (q_log s) idx (rid r) /\ idx <= q_commit s /\ idx <= q_applied s /\
                In (idx, f) (q_flags s) /\ raux r = (if f : bool then 1 else 0).

Record Inv (s : lq) : Prop := {
  i_pcw : forall b, In b (q_pcw s) -> aligned (q_log s) b;
  i_pwa : forall k id, In (k, id) (q_pwa s) -> k <= q_commit s /\ ent (q_log s) k id;
  i_resp : forall r, In r (q_resp s) -> rkind r = K_WOK -> wok s r }.

(* "nothing relevant to the invariant is disturbed" *)
Record ext (s s' : lq) : Prop := {
  x_log : exists e, q_log s' = q_log s ++ e;
  x_pcw : incl (q_pcw s') (q_pcw s);
  x_pwa : incl (q_pwa s') (q_pwa s);
  x_commit : q_commit s <= q_commit s';
  x_applied : q_applied s <= q_applied s';
  x_flags : exists e, q_flags s' = q_flags s ++ e;
  x_resp : forall r, In r (q_resp s') -> In r (q_resp s) \/ rkind r <> K_WOK }.

Lemma ext_refl s : ext s s.
Proof.
  constructor; try apply incl_refl; try lia; try (exists []; rewrite app_nil_r; reflexivity). intros r H; left; exact H.
Qed.
Lemma ext_trans s1 s2 s3 : ext s1 s2 -> ext s2 s3 -> ext s1 s3.
Proof.
  intros [[e1 L1] P1 W1 C1 A1 [f1 F1] R1] [[e2 L2] P2 W2 C2 A2 [f2 F2] R2]. constructor.
  - exists (e1 ++ e2). rewrite L2, L1, app_assoc. reflexivity.
  - eapply incl_tran; eauto.
  - eapply incl_tran; eauto.
  - lia.
  - lia.
  - exists (f1 ++ f2). rewrite F2, F1, app_assoc. reflexivity.
  - intros r H. destruct (R2 r H) as [H'|H']; [apply R1; exact H' | right; exact H'].
Qed.

Lemma wok_ext s s' r : ext s s' -> wok s r -> wok s' r.
Proof.
  intros [[e L] _ _ C A [f F] _] [idx [fl [He [Hc [Ha [Hf Hx]]]]]]. exists idx, fl.
  rewrite L, F. splits; try lia; try exact Hx.
  - apply ent_app; exact He.
  - apply in_or_app; left; exact Hf.
Qed.

Lemma inv_ext s s' : ext s s' -> Inv s -> Inv s'.
Proof.
  intros X [Ip Iw Ir]. pose proof X as [[e L] P W C A [f F] R]. constructor.
  - intros b Hb. destruct (Ip b (P b Hb)) as [H1 H2]. split; [exact H1|].
    intros i id Hi. rewrite L. apply ent_app. eauto.
  - intros k id Hk. destruct (Iw k id (W _ Hk)) as [H1 H2]. split; [lia|]. rewrite L. apply ent_app; exact H2.
  - intros r Hr Hk. destruct (R r Hr) as [H|H]; [|contradiction]. eapply wok_ext; eauto.
Qed.

(* the cheap way to establish ext: only responses of other kinds were added, queues of the invariant untouched or shrunk *)
Lemma ext_mk s s' rs :
  q_log s' = q_log s -> incl (q_pcw s') (q_pcw s) -> incl (q_pwa s') (q_pwa s) ->
  q_commit s' = q_commit s -> q_applied s' = q_applied s -> q_flags s' = q_flags s ->
  q_resp s' = q_resp s ++ rs -> (forall r, In r rs -> rkind r <> K_WOK) -> ext s s'.
Proof.
  intros L P W C A F R K. constructor; try assumption; try lia.
  - exists []. rewrite app_nil_r. exact L.
  - exists []. rewrite app_nil_r. exact F.
  - intros r. rewrite R, in_app_iff. intros [H|H]; [left; exact H | right; apply K; exact H].
Qed.

Ltac nowok_h H :=
  first [ apply all_kind_kind in H; rewrite H; discriminate
        | apply in_map_iff in H; destruct H as [? [<- _]]; discriminate
        | apply in_app_or in H; destruct H as [H|H]; [nowok_h H | nowok_h H]
        | cbn [In] in H; repeat (destruct H as [<-|H]; [discriminate|]); contradiction ].
Ltac nowok := let r := fresh "r" in let H := fresh "H" in intros r H; nowok_h H.

Lemma ext_answer s rs : (forall r, In r rs -> rkind r <> K_WOK) -> ext s (answer s rs).
Proof. intros K. apply (ext_mk s _ rs); try reflexivity; try apply incl_refl. exact K. Qed.

Ltac ext0 := apply (ext_mk _ _ []); cbn; try reflexivity; try apply incl_refl;
             try (rewrite app_nil_r; reflexivity); try (intros ? []).

Lemma ext_set_next s n : ext s (set_next s n). Proof. ext0. Qed.
Lemma ext_set_bufs s a b c d : ext s (set_bufs s a b c d). Proof. ext0. Qed.
Lemma ext_set_lease s b : ext s (set_lease s b). Proof. ext0. Qed.
Lemma ext_set_hb s h : ext s (set_hb s h). Proof. ext0. Qed.
Lemma ext_reset_hb s : ext s (reset_hb s). Proof. apply ext_set_hb. Qed.

Lemma inv_step_write s k : Inv s -> Inv (push_write s k).
Proof.
  apply inv_ext. unfold push_write.
  eapply ext_trans; [apply (ext_set_next s (q_next s + 1))|]. set (s1 := set_next s (q_next s + 1)).
  destruct (q_leader s1); [|apply ext_answer; nowok].
  destruct (full _ _); [apply ext_answer; nowok|].
  destruct (k =? 3); [apply ext_answer; nowok | apply ext_set_bufs].
Qed.

Lemma inv_step_read s k : Inv s -> Inv (push_read s k).
Proof.
  apply inv_ext. unfold push_read.
  eapply ext_trans; [apply (ext_set_next s (q_next s + 1))|]. set (s1 := set_next s (q_next s + 1)).
  destruct (q_leader s1).
  - destruct (_ =? P_LIN); [destruct (full _ _); [apply ext_answer; nowok | apply ext_set_bufs]|].
    destruct (_ =? P_LEASE); destruct (full _ _); try (apply ext_answer; nowok); apply ext_set_bufs.
  - destruct (nonleader_policy _ _); apply ext_answer; nowok.
Qed.

Lemma inv_step_scan s : Inv s -> Inv (push_scan s).
Proof.
  apply inv_ext. unfold push_scan.
  eapply ext_trans; [apply (ext_set_next s (q_next s + 1))|].
  destruct (q_leader _); apply ext_answer; nowok.
Qed.

Lemma inv_step_join s : Inv s -> Inv (join s).
Proof.
  apply inv_ext. unfold join.
  eapply ext_trans; [apply (ext_set_next s (q_next s + 1))|]. set (s1 := set_next s (q_next s + 1)).
  destruct (q_leader s1); cbn [negb]; [|apply ext_answer; nowok].
  constructor; cbn; try apply incl_refl; try lia.
  - eexists; reflexivity.
  - exists []; rewrite app_nil_r; reflexivity.
  - intros r H; left; exact H.
Qed.

(* ---- exec_rpc: the new batch is aligned with the entries just appended ---- *)
Lemma nth_error_map_some {A B} (f : A -> B) l i x : nth_error l i = Some x -> nth_error (map f l) i = Some (f x).
Proof. intros H. rewrite nth_error_map, H. reflexivity. Qed.

Lemma inv_exec_rpc s w r : Inv s -> Inv (exec_rpc s w r).
Proof.
  intros I. unfold exec_rpc.
  set (s1 := set_log s (q_log s ++ map (fun i => (q_term s, Some i)) w)).
  assert (X1 : ext s s1).
  { constructor; cbn; try apply incl_refl; try lia; [eexists; reflexivity | exists []; rewrite app_nil_r; reflexivity | intros ? H; left; exact H]. }
  assert (I1 : Inv s1) by (eapply inv_ext; eauto).
  set (s2 := match w with [] => s1 | _ => _ end).
  assert (I2 : Inv s2).
  { subst s2. destruct w as [|w0 w']; [exact I1|]. set (w := w0 :: w') in *.
    destruct I1 as [Ip Iw Ir]. constructor.
    - intros b. cbn [q_pcw set_pend upd q_log]. unfold pcw_insert. rewrite in_app_iff. intros [Hb|[<-|[]]].
      + apply filter_In in Hb. apply Ip. exact (proj1 Hb).
      + split.
        * cbn [b_end b_start b_ids]. subst w. cbn [length]. lia.
        * cbn [b_start b_ids]. intros i id Hi. split; [unfold last; lia|]. exists (q_term s).
          subst s1. cbn [q_log set_log upd]. unfold last.
          replace (N.to_nat (N.of_nat (length (q_log s)) + 1 + N.of_nat i - 1)) with (length (q_log s) + i)%nat by lia.
          rewrite nth_error_app2 by lia. replace (length (q_log s) + i - length (q_log s))%nat with i by lia.
          apply (nth_error_map_some (fun i0 => (q_term s, Some i0))). exact Hi.
    - exact Iw.
    - intros r0 Hr Hk. destruct (Ir r0 Hr Hk) as [idx [f H]]. exists idx, f. exact H. }
  destruct r as [|r0 r']; [exact I2|].
  eapply inv_ext; [|exact I2].
  destruct (negb (q_noop s2)); [apply ext_answer; nowok|].
  destruct (_ && _); [apply ext_answer; nowok|]. ext0.
Qed.

Lemma inv_lease_read s id : Inv s -> Inv (lease_read s id).
Proof.
  apply inv_ext. unfold lease_read. destruct (q_lease s); [apply ext_answer; nowok|].
  destruct (c_single _); [eapply ext_trans; [apply ext_set_lease | apply ext_answer; nowok]|]. ext0.
Qed.
Lemma inv_fold_lease l : forall s, Inv s -> Inv (fold_left lease_read l s).
Proof. induction l as [|x l IH]; intros s I; cbn [fold_left]; [exact I | apply IH, inv_lease_read, I]. Qed.

Lemma inv_step_flush s : Inv s -> Inv (flush s).
Proof.
  intros I. unfold flush. destruct (negb (q_leader s)); [exact I|].
  set (s1 := match q_pbuf s with [] => _ | _ => _ end).
  assert (I1 : Inv s1).
  { subst s1. destruct (q_pbuf s), (q_linbuf s); try exact I; apply inv_exec_rpc;
      (eapply inv_ext; [|exact I]); try apply ext_set_bufs.
    eapply ext_trans; [apply ext_set_bufs | apply ext_reset_hb]. }
  eapply inv_ext; [apply ext_answer; nowok|]. apply inv_fold_lease.
  eapply inv_ext; [apply ext_set_bufs | exact I1].
Qed.

(* ---- commit: drain_pending_client_writes ---- *)
Lemma in_place ids : forall start pwa x, In x (place start ids pwa) ->
  In x pwa \/ exists i id, nth_error ids i = Some id /\ x = (start + N.of_nat i, id).
Proof.
  induction ids as [|i0 ids IH]; intros start pwa x H; cbn [place] in H; [left; exact H|].
  destruct (IH _ _ _ H) as [H1|[i [id [Hn ->]]]].
  - destruct (in_pwa_insert _ _ _ _ H1) as [->|H2]; [|left; exact H2].
    right. exists O, i0. split; [reflexivity | f_equal; lia].
  - right. exists (S i), id. split; [exact Hn | f_equal; lia].
Qed.
Lemma in_fold_place done : forall pwa x, In x (fold_left (fun pwa b => place (b_start b) (b_ids b) pwa) done pwa) ->
  In x pwa \/ exists b i id, In b done /\ nth_error (b_ids b) i = Some id /\ x = (b_start b + N.of_nat i, id).
Proof.
  induction done as [|b done IH]; intros pwa x H; cbn [fold_left] in H; [left; exact H|].
  destruct (IH _ _ H) as [H1|[b' [i [id [Hb [Hn ->]]]]]].
  - destruct (in_place _ _ _ _ H1) as [H2|[i [id [Hn ->]]]]; [left; exact H2|].
    right. exists b, i, id. split; [left; reflexivity | split; [exact Hn | reflexivity]].
  - right. exists b', i, id. split; [right; exact Hb | split; [exact Hn | reflexivity]].
Qed.

Lemma inv_drain_pcw s : Inv s -> Inv (drain_pcw s (q_commit s)).
Proof.
  intros [Ip Iw Ir]. unfold drain_pcw. constructor; cbn [q_pcw q_pwa q_resp q_log q_commit q_applied q_flags set_pend upd].
  - intros b Hb. apply filter_In in Hb. apply Ip, Hb.
  - intros k id H. destruct (in_fold_place _ _ _ H) as [H1|[b [i [id' [Hb [Hn [= -> ->]]]]]]]; [apply Iw; exact H1|].
    apply filter_In in Hb. destruct Hb as [Hb Hle]. apply N.leb_le in Hle.
    destruct (Ip b Hb) as [Hend Hal]. split; [|apply Hal; exact Hn].
    assert (i < length (b_ids b))%nat by (apply nth_error_Some; congruence). lia.
  - intros r Hr Hk. destruct (Ir r Hr Hk) as [idx [f H]]. exists idx, f. exact H.
Qed.

Lemma ext_set_commit s c : q_commit s <= c -> ext s (set_commit s c).
Proof.
  intros H. constructor; cbn; try apply incl_refl; try lia;
    [exists []; rewrite app_nil_r; reflexivity | exists []; rewrite app_nil_r; reflexivity | intros ? H'; left; exact H'].
Qed.
Lemma ext_drain_pca s c : ext s (drain_pca s c).
Proof. unfold drain_pca. eapply ext_trans; [|apply ext_answer; nowok]. ext0. Qed.

Lemma inv_advance s c : q_commit s <= c -> Inv s -> Inv (advance s c).
Proof.
  intros H I. unfold advance. eapply inv_ext; [apply ext_drain_pca|].
  apply (inv_drain_pcw (set_commit s c)). eapply inv_ext; [apply ext_set_commit; exact H | exact I].
Qed.

Lemma ext_serve_preads s u : ext s (serve_preads s u).
Proof.
  unfold serve_preads. eapply ext_trans; [|apply ext_answer]. { ext0. }
  intros r H. apply in_flat_map in H. destruct H as [e [_ H]]. apply in_map_iff in H. destruct H as [? [<- _]]. discriminate.
Qed.
Lemma ext_drain_please s : ext s (drain_please s).
Proof. unfold drain_please. eapply ext_trans; [|apply ext_answer; nowok]. ext0. Qed.

Lemma new_commit_gt s c : new_commit s = Some c -> q_commit s <= c.
Proof.
  unfold new_commit. destruct (majority s); [|discriminate]. destruct (N.ltb_spec (q_commit s) n); [|discriminate].
  intros [= <-]. lia.
Qed.

Lemma inv_step_ack s m : Inv s -> Inv (ack s m).
Proof.
  intros I. unfold ack. destruct (_ || _); [exact I|].
  set (s1 := if q_match s <? m then _ else s).
  assert (I1 : Inv s1).
  { subst s1. destruct (q_match s <? m); [|exact I]. eapply inv_ext; [|exact I]. ext0. }
  set (s2 := match new_commit s1 with Some c => advance s1 c | None => s1 end).
  assert (I2 : Inv s2).
  { subst s2. destruct (new_commit s1) eqn:E; [|exact I1]. apply inv_advance; [apply new_commit_gt; exact E | exact I1]. }
  destruct (majority s2); [|exact I2].
  eapply inv_ext; [apply ext_serve_preads|]. eapply inv_ext; [apply ext_drain_please|].
  eapply inv_ext; [apply ext_set_lease | exact I2].
Qed.

Lemma inv_step_flushed s : Inv s -> Inv (flushed s).
Proof.
  intros I. unfold flushed. destruct (negb _); [exact I|]. destruct (c_single _).
  - destruct (N.ltb_spec (q_commit s) (last s)); [|exact I].
    eapply inv_ext; [apply ext_drain_please|]. eapply inv_ext; [apply ext_set_lease|]. apply inv_advance; [lia | exact I].
  - destruct (new_commit s) eqn:E; [|exact I]. apply inv_advance; [apply new_commit_gt; exact E | exact I].
Qed.

(* ---- apply ---- *)
Lemma apply_results_spec flags : forall idx pwa fl out pwa' fl' out',
  apply_results idx flags pwa fl out = (pwa', fl', out') ->
  incl pwa' pwa /\ (exists fx, fl' = fl ++ fx) /\
  (forall r, In r out' -> In r out \/
     (rkind r = K_WOK /\ exists k f, idx <= k /\ k < idx + N.of_nat (length flags) /\ In (k, rid r) pwa /\ In (k, f) fl' /\
                                     raux r = (if f : bool then 1 else 0))).
Proof.
  induction flags as [|f flags IH]; intros idx pwa fl out pwa' fl' out' H; cbn [apply_results] in H.
  - injection H as <- <- <-. split; [apply incl_refl|]. split; [exists []; rewrite app_nil_r; reflexivity|]. intros r Hr; left; exact Hr.
  - destruct (pwa_get idx pwa) as [id|] eqn:G.
    + destruct (IH _ _ _ _ _ _ _ H) as [H1 [[fx H2] H3]]. split; [|split].
      * intros x Hx. eapply in_pwa_remove. apply H1. exact Hx.
      * exists ([(idx, f)] ++ fx). rewrite H2, app_assoc. reflexivity.
      * intros r Hr. destruct (H3 r Hr) as [Ho|[Hk [k [f' [Hl [Hu [Hp [Hf Ha]]]]]]]].
        -- apply in_app_or in Ho. destruct Ho as [Ho|[<-|[]]]; [left; exact Ho|]. right. split; [reflexivity|].
           exists idx, f. cbn [length]. splits; try lia; try reflexivity.
           ++ apply pwa_get_in. exact G.
           ++ rewrite H2. apply in_or_app. left. apply in_or_app. right. left. reflexivity.
        -- right. split; [exact Hk|]. exists k, f'. cbn [length]. splits; try lia; try assumption.
           eapply in_pwa_remove; eauto.
    + destruct (IH _ _ _ _ _ _ _ H) as [H1 [[fx H2] H3]]. split; [exact H1|]. split.
      * exists ([(idx, f)] ++ fx). rewrite H2, app_assoc. reflexivity.
      * intros r Hr. destruct (H3 r Hr) as [Ho|[Hk [k [f' [Hl [Hu [Hp [Hf Ha]]]]]]]]; [left; exact Ho|].
        right. split; [exact Hk|]. exists k, f'. cbn [length]. splits; try lia; assumption.
Qed.

Lemma inv_step_apply s flags : Inv s -> Inv (apply s flags).
Proof.
  intros I. unfold apply.
  set (n := N.min (N.of_nat (length flags)) (q_commit s - q_applied s)).
  set (fl0 := firstn (N.to_nat n) flags).
  set (s1 := set_vol s _ _ _ (q_applied s + n) _ _ _ _ _).
  destruct (negb (q_leader s)).
  { eapply inv_ext; [|exact I]. constructor; cbn; try apply incl_refl; try lia;
      [exists []; rewrite app_nil_r; reflexivity | exists []; rewrite app_nil_r; reflexivity | intros ? H'; left; exact H']. }
  destruct (apply_results _ _ _ _ _) as [[pwa flx] out] eqn:E.
  eapply inv_ext; [apply ext_serve_preads|].
  destruct (apply_results_spec _ _ _ _ _ _ _ _ E) as [H1 [[fx H2] H3]].
  destruct I as [Ip Iw Ir]. subst s1. constructor; cbn [q_pcw q_pwa q_resp q_log q_commit q_applied q_flags set_pend set_vol answer upd].
  - exact Ip.
  - intros k id Hk. apply Iw, H1, Hk.
  - intros r Hr Hk. apply in_app_or in Hr. destruct Hr as [Hr|Hr].
    + destruct (Ir r Hr Hk) as [idx [f [He [Hc [Ha [Hf Hx]]]]]]. exists idx, f.
      cbn [q_pcw q_pwa q_resp q_log q_commit q_applied q_flags set_pend set_vol answer upd].
      splits; try assumption; try lia. subst flx. apply in_or_app; left; exact Hf.
    + destruct (H3 r Hr) as [[]|[_ [k [f [Hl [Hu [Hp [Hf Ha]]]]]]]].
      destruct (Iw _ _ Hp) as [Hc He]. exists k, f.
      cbn [q_pcw q_pwa q_resp q_log q_commit q_applied q_flags set_pend set_vol answer upd].
      assert (length fl0 <= N.to_nat n)%nat by (subst fl0; apply firstn_le_length).
      splits; try assumption; lia.
Qed.

Lemma ext_sweep s : ext s (sweep s).
Proof.
  unfold sweep. eapply ext_trans; [|apply ext_answer; nowok].
  apply (ext_mk _ _ []); cbn; try reflexivity; try apply incl_refl; try (rewrite app_nil_r; reflexivity); try (intros ? []).
  apply incl_filter.
Qed.

Lemma inv_step_tick s dt : Inv s -> Inv (tick s dt).
Proof.
  intros I. unfold tick. set (s1 := set_vol s _ _ _ _ _ _ (q_now s + dt) _ _).
  assert (I1 : Inv s1) by (eapply inv_ext; [|exact I]; ext0).
  destruct (negb (q_leader s1)); [exact I1|].
  eapply inv_ext; [apply ext_sweep|].
  destruct (q_hb s1 <=? q_now s1); [|exact I1].
  apply inv_exec_rpc. eapply inv_ext; [|exact I1]. eapply ext_trans; [apply ext_set_bufs | apply ext_reset_hb].
Qed.

Lemma ext_set_pend s pcw pwa pr pl pca : incl pcw (q_pcw s) -> incl pwa (q_pwa s) -> ext s (set_pend s pcw pwa pr pl pca).
Proof.
  intros H1 H2. apply (ext_mk _ _ []); try reflexivity; try assumption; [cbn; rewrite app_nil_r; reflexivity | intros ? []].
Qed.
Lemma ext_set_vol s l t c a m le now hb : q_commit s <= c -> q_applied s <= a -> ext s (set_vol s l t c a m le now hb (q_flags s)).
Proof.
  intros H1 H2. constructor; cbn; try apply incl_refl; try assumption;
    [exists []; rewrite app_nil_r; reflexivity | exists []; rewrite app_nil_r; reflexivity | intros ? H'; left; exact H'].
Qed.

Lemma ext_drop_all s : ext s (drop_all s).
Proof.
  unfold drop_all. cbv zeta. eapply ext_trans; [|apply ext_set_vol; lia].
  eapply ext_trans; [|apply ext_answer; nowok].
  eapply ext_trans; [apply ext_set_bufs | apply ext_set_pend; intros ? []].
Qed.

Lemma inv_step_higher s : Inv s -> Inv (higher_term s).
Proof.
  apply inv_ext. unfold higher_term. destruct (negb _); [apply ext_refl|]. cbv zeta.
  eapply ext_trans; [|apply ext_answer; nowok].
  eapply ext_trans; [|apply ext_set_pend; [intros ? [] | apply incl_refl]]. apply ext_set_vol; lia.
Qed.

Lemma inv_step_down s : Inv s -> Inv (step_down s).
Proof.
  apply inv_ext. unfold step_down. destruct (negb _); [apply ext_refl|]. cbv zeta.
  eapply ext_trans; [|apply ext_drop_all]. eapply ext_trans; [|apply ext_answer; nowok].
  eapply ext_trans; [apply ext_set_bufs | apply ext_set_pend; [intros ? [] | apply incl_refl]].
Qed.

Lemma inv_step_fatal s : Inv s -> Inv (fatal s).
Proof.
  apply inv_ext. unfold fatal. destruct (negb _); [apply ext_refl|]. cbv zeta.
  eapply ext_trans; [|apply ext_drop_all]. eapply ext_trans; [|apply ext_answer; nowok].
  eapply ext_trans; [apply ext_set_bufs | apply ext_set_pend; [apply incl_refl | intros ? []]].
Qed.

Lemma inv_step s o : Inv s -> Inv (step s o).
Proof.
  destruct o; cbn [step].
  - apply inv_step_write. - apply inv_step_read. - apply inv_step_scan. - apply inv_step_join.
  - apply inv_step_flush. - apply inv_step_ack. - apply inv_step_flushed. - apply inv_step_apply.
  - apply inv_step_tick. - apply inv_step_higher. - apply inv_step_down. - apply inv_step_fatal.
Qed.

Lemma inv_init c noop : Inv (init c noop).
Proof. constructor; cbn; intros; contradiction. Qed.

Lemma inv_run ops : forall s, Inv s -> Inv (run s ops).
Proof. induction ops as [|o ops IH]; intros s I; cbn [run fold_left]; [exact I | apply IH, inv_step, I]. Qed.

(* A success response (kind K_WOK, aux = the CAS/put outcome) exists only for a request whose own entry sits at some
   index idx of the leader's log, with idx committed, idx applied, and aux equal to the flag that ApplyCompleted
   delivered for idx. *)
Theorem success_only_after_commit_and_apply :
  forall (c : cfg) (noop : bool) (ops : list op) (id aux : N),
    let s := run (init c noop) ops in
    In (id, K_WOK, aux) (q_resp s) ->
    exists idx f t, entry_at s idx = Some (t, Some id) /\ idx <= q_commit s /\ idx <= q_applied s /\
                    In (idx, f) (q_flags s) /\ aux = (if f : bool then 1 else 0).
Proof.
  intros c noop ops id aux s H.
  destruct (i_resp _ (inv_run ops _ (inv_init c noop)) _ H eq_refl) as [idx [f [[Hk [t Ht]] [Hc [Ha [Hf Hx]]]]]].
  exists idx, f, t. unfold entry_at. destruct (N.eqb_spec idx 0); [lia|]. splits; assumption.
Qed.

(* batch alignment: a pending batch registered by execute_and_process_raft_rpc Phase 2 describes, at start_idx + i,
   exactly the entry of its i-th sender; the senders moved to pending_write_apply sit at the index of their own entry *)
Theorem batch_alignment :
  forall (c : cfg) (noop : bool) (ops : list op),
    let s := run (init c noop) ops in
    (forall b i id, In b (q_pcw s) -> nth_error (b_ids b) i = Some id ->
        exists t, entry_at s (b_start b + N.of_nat i) = Some (t, Some id)) /\
    (forall k id, In (k, id) (q_pwa s) -> k <= q_commit s /\ exists t, entry_at s k = Some (t, Some id)).
Proof.
  intros c noop ops s. pose proof (inv_run ops _ (inv_init c noop)) as [Ip Iw _]. fold s in Ip, Iw. split.
  - intros b i id Hb Hn. destruct (Ip b Hb) as [_ Ha]. destruct (Ha i id Hn) as [Hk [t Ht]].
    exists t. unfold entry_at. destruct (N.eqb_spec (b_start b + N.of_nat i) 0); [lia | exact Ht].
  - intros k id Hk. destruct (Iw k id Hk) as [Hc [Hk1 [t Ht]]]. split; [exact Hc|].
    exists t. unfold entry_at. destruct (N.eqb_spec k 0); [lia | exact Ht].
Qed.

(* non-vacuity: put + CAS in one batch, committed by the peer's ack, applied with flags [true; false] *)
Definition cfg_ex : cfg := {| c_maxw := 0; c_maxr := 0; c_T := 100; c_H := 50; c_J := 200; c_default := 1; c_override := true; c_single := false |}.
Example success_example :
  q_resp (run (init cfg_ex true) [OWrite 0; OWrite 2; OFlush; OAck 2; OApply [true; false]]) = [(0, K_WOK, 1); (1, K_WOK, 0)].
Proof. vm_compute. reflexivity. Qed.
Example alignment_example :
  q_pcw (run (init cfg_ex true) [OWrite 0; OFlush; OWrite 2; OWrite 1; OFlush]) =
    [{| b_end := 1; b_start := 1; b_ids := [0]; b_dl := 100 |}; {| b_end := 3; b_start := 2; b_ids := [1; 2]; b_dl := 100 |}].
Proof. vm_compute. reflexivity. Qed.
