(* C13 — read policy routing.  Proved on DE.ReadRoute.  The Raft command path satisfies the statement; the fast path
   of the gRPC service and of the embedded client does not (it never consults allow_client_override nor the server's
   default policy): refutation witnesses below. *)
From Coq Require Import NArith List Bool Lia.
From DE Require Import Val ReadRoute.
Import ListNotations.
Open Scope N_scope.

Definition policy_used (o : outcome) : option N :=
  match o with NotLeader => None | ServedLocal p => Some p | LeaderQueue p => Some p end.

(* Raft command path, all roles, all configurations, all requested policies *)
Theorem command_path_sound :
  forall (role default : N) (override : bool) (req : N),
    let o := command_path role default override req in
    (* every read that is served is served under the effective policy; with overrides disabled that is the default *)
    (forall p, policy_used o = Some p -> p = effective default override req /\ (override = false -> p = default)) /\
    (* a non-leader serves locally only eventual reads, and otherwise says "Not leader" *)
    (is_leader role = false -> o = ServedLocal R_EV \/ o = NotLeader) /\
    (is_leader role = false -> effective default override req <> R_EV -> o = NotLeader) /\
    (* the leader never answers from the non-leader branch *)
    (is_leader role = true -> o = LeaderQueue (effective default override req)).
Proof.
  intros role default override req. cbv zeta. unfold command_path, effective.
  assert (Hov : override = false -> negb (req =? 0) && override = false) by (intros ->; apply andb_false_r).
  destruct (is_leader role) eqn:L.
  - split; [|split; [intros H; discriminate H | split; [intros H; discriminate H | intros _; reflexivity]]].
    intros p H. cbn [policy_used] in H. injection H as <-. split; [reflexivity|]. intros Ho. rewrite (Hov Ho). reflexivity.
  - destruct (negb (req =? 0) && override) eqn:B.
    + destruct (N.eqb_spec req R_EV) as [E|E].
      * split; [|split; [intros _; left; reflexivity | split; [intros _ H; congruence | intros H; discriminate H]]].
        intros p H. cbn [policy_used] in H. injection H as <-. split; [congruence|]. intros Ho. pose proof (Hov Ho) as Hb. congruence.
      * split; [|split; [intros _; right; reflexivity | split; [intros _ _; reflexivity | intros H; discriminate H]]]. intros p H. discriminate H.
    + destruct (N.eqb_spec default R_EV) as [E|E].
      * split; [|split; [intros _; left; reflexivity | split; [intros _ H; congruence | intros H; discriminate H]]].
        intros p H. cbn [policy_used] in H. injection H as <-. split; congruence.
      * split; [|split; [intros _; right; reflexivity | split; [intros _ _; reflexivity | intros H; discriminate H]]]. intros p H. discriminate H.
Qed.

(* non-leader nodes on every path never serve a linearizable read locally, and serve a lease read locally only with a
   valid lease (which a non-leader never holds) *)
Theorem non_leader_never_serves_lin_or_lease :
  forall (path role default : N) (override : bool) (req : N),
    is_leader role = false ->
    route path role default override req false <> ServedLocal R_LIN /\
    route path role default override req false <> ServedLocal R_LEASE.
Proof.
  intros path role default override req L. unfold route, grpc_path, embedded_path, fast_path, command_path. rewrite L.
  rewrite !andb_false_r.
  split; repeat (match goal with |- context [if ?b then _ else _] => destruct b end); discriminate.
Qed.

(* Full statement (second sentence), NOT provable for the API fast paths:
     forall path role default req lease, route path role default false req lease serves under p -> p = default.
   Refuted on the model of the code; the witnesses are replayed on the real code by props/C13.py. *)
Theorem override_disabled_fast_path_refuted :
  exists (path role default req : N) (lease : bool),
    policy_used (route path role default false req lease) <> None /\
    policy_used (route path role default false req lease) <> Some default.
Proof. exists 1, 0, R_LIN, R_EV, false. vm_compute. split; discriminate. Qed.

Example embedded_follower_serves_eventual_despite_linearizable_default :
  route 2 0 R_LIN false R_EV false = ServedLocal R_EV.
Proof. vm_compute. reflexivity. Qed.
Example grpc_leader_serves_lease_despite_linearizable_default :
  route 1 3 R_LIN false R_LEASE true = ServedLocal R_LEASE.
Proof. vm_compute. reflexivity. Qed.
Example command_path_example :
  command_path 0 R_LIN false R_EV = NotLeader /\ command_path 3 R_LEASE false R_EV = LeaderQueue R_LEASE /\
  command_path 2 R_LIN true R_EV = ServedLocal R_EV.
Proof. vm_compute. repeat split. Qed.

