(* ReadActor — executable model of d-engine-server/src/read_actor.rs as coded: every command of a drained batch is
   checked on its own, just before its state machine read (serve_read): an eventual read needs a running state
   machine, a lease read a lease that is valid at that moment, a linearizable read is refused. The lease is revoked
   (the Raft loop steps down concurrently) while the k-th state machine read is being served. No proofs here. *)
From Coq Require Import NArith List Bool.
From DE Require Import Val.
Import ListNotations.
Open Scope N_scope.

(* codes: 1 served, 2 LeaseInvalid *)
(* state: lease valid now, number of state machine reads so far *)
Fixpoint ra_run (pols : list N) (valid : bool) (reads revoke_at : N) : list N * list N :=
  match pols with
  | [] => ([], [])
  | p :: rest =>
      let serves := (p =? 3) || ((p =? 2) && valid) in
      if serves then
        let reads' := reads + 1 in
        let valid' := if (0 <? revoke_at) && (reads' =? revoke_at) then false else valid in
        let '(cs, vs) := ra_run rest valid' reads' revoke_at in
        (1 :: cs, (if valid then 1 else 0) :: vs)
      else
        let '(cs, vs) := ra_run rest valid reads revoke_at in (2 :: cs, vs)
  end.

(* input [max_drain, lease_ms, [policy...], revoke_at, sleep_ms] -> [codes, lease valid at each state machine read]
   (cases without sleeps and with a long lease: the clock plays no role) *)
Definition read_actor_probe (v : val) : val :=
  let '(cs, vs) := ra_run (vnl (vnth v 2)) (0 <? vn (vnth v 1)) 0 (vn (vnth v 3)) in
  VL [VL (map VN cs); VL (map VN vs)].
