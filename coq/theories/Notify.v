(* Notify — the leader-change notifications of one node, as coded: every call of
   raft.rs Raft::notify_leader_change made by handle_internal_event
     BecomeFollower(l)      -> (l, current term)         BecomeCandidate / BecomeLearner -> (None, current term)
     LeaderDiscovered(l, t) -> (Some l, t)               NoopCommitted{term}             -> (Some self, term)
   together with the senders of those internal events in raft_role/{follower,candidate,leader}_state.rs and
   role_state.rs handle_append_entries_request_workflow (LeaderDiscovered only when SharedState::update_voted_for
   reports a new leader commitment). The node state itself is DE.Election.estep, unchanged; this file adds the
   two pieces of volatile state the notification sites read (SharedState.current_leader_id and the pending
   LeaderNoop post-commit action) and the emitted notifications, in emission order. No proofs here.

   [old = true] is the behaviour before fix commit 7cd2780: a leader that received an AppendEntries of a newer
   term sent BecomeFollower(Some leader) WITHOUT adopting the term first, so that handler announced the new
   leader with the node's own old term. The node state reached is the same in both variants. *)
From Coq Require Import NArith List Bool.
From DE Require Import Val Election.
Import ListNotations.
Open Scope N_scope.

Definition note := option (N * N).   (* argument of notify_leader_change: None, or Some (leader, term) *)

Record nnode := {
  nn_e : enode;
  nn_cur : N;       (* SharedState.current_leader_id (0 = none): memory only, survives role changes, not restarts *)
  nn_noop : bool    (* LeaderState.pending_commit_actions still holds the LeaderNoop of this leadership *)
}.

Inductive nev :=
| NE (e : eev)      (* the events of DE.Election *)
| NAck (pt : N).    (* the leader's replication round is answered by a voter whose term is pt: a higher term
                       deposes the leader (handle_append_result), a lower one is stale and ignored, its own term
                       is a success that completes a majority (3-voter cluster): the noop of this leadership
                       commits, drain_commit_actions sends NoopCommitted{term captured at election} *)

(* SharedState::update_voted_for called with a committed record (l, t): "new leader commitment" *)
Definition is_new_leader (ov : option vote) (cur l t : N) : bool :=
  match ov with
  | Some o => negb (v_id o =? l) || negb (v_term o =? t) || negb (v_committed o) || (cur =? 0)
  | None => true
  end.

(* handle_append_entries_request_workflow: LeaderDiscovered(l, t) only on that transition *)
Definition discovered (ov : option vote) (cur l t : N) : list note :=
  if is_new_leader ov cur l t then [Some (l, t)] else [].

(* the role accepts an AppendEntries of term t (follower: t >= term; candidate: t >= term, steps down;
   leader: t > term, steps down) *)
Definition ae_accepted (n : enode) (t : N) : bool :=
  match en_role n with
  | Follower => negb (t <? en_term n)
  | Candidate => en_term n <=? t
  | Leader => en_term n <? t
  end.

Definition emits (old : bool) (s : nnode) (e : eev) : list note :=
  let n := nn_e s in
  match e with
  | EVoteReq cand t li lt =>
      match en_role n with
      | Follower => []                                                        (* no role change, no internal event *)
      | Candidate => if candidate_legal n t (li, lt) then [None] else []       (* BecomeFollower(None) *)
      | Leader => if en_term n <? t then [None] else []                        (* BecomeFollower(None) *)
      end
  | EAppend l t =>
      match en_role n with
      | Follower => if ae_accepted n t then discovered (en_vote n) (nn_cur s) l t else []
      | Candidate =>
          if ae_accepted n t then
            (* set_current_leader(l); term adopted; BecomeFollower(None); the request is replayed to the follower *)
            let n1 := become_follower (set_rtv n Candidate (N.max (en_term n) t) (en_vote n)) in
            None :: discovered (en_vote n1) l l t
          else []
      | Leader =>
          if ae_accepted n t then
            (* BecomeFollower(Some l) is answered with the node's current term: t after the fix, its own old
               term before; then the replayed request reaches the follower *)
            let n1 := if old then become_follower n else become_follower (set_rtv n Leader t (en_vote n)) in
            Some (l, en_term n1) :: discovered (en_vote n1) (nn_cur s) l t
          else []
      end
  | ETimeout granted higher voters denied =>
      match en_role n with
      | Leader => []
      | r =>
          let t := en_term n + 1 in
          (match r with Follower => [None] | _ => [] end)                      (* BecomeCandidate *)
          ++ (if voters =? 0 then []
              else if (0 <? denied) && (0 <? higher) && (t <? higher) then [None]   (* HigherTerm: BecomeFollower(None) *)
              else [])                                                         (* BecomeLeader notifies nobody *)
      end
  | EStepDownSame => match en_role n with Leader => [None] | _ => [] end       (* BecomeFollower(None) *)
  | ERestart _ => []
  end.

Definition nstep (old : bool) (s : nnode) (ev : nev) : nnode * list note :=
  let n := nn_e s in
  match ev with
  | NE e =>
      let n' := fst (estep n e) in
      let cur' :=
        match e with
        | EAppend l t => if ae_accepted n t then l else nn_cur s
        | ERestart _ => 0
        | _ => match en_role n, en_role n' with
               | Leader, _ => nn_cur s
               | _, Leader => en_id n            (* From<&CandidateState> for LeaderState: set_current_leader(self) *)
               | _, _ => nn_cur s
               end
        end in
      let noop' :=
        match en_role n' with
        | Leader => match en_role n with Leader => nn_noop s | _ => true end   (* initiate_noop_commit *)
        | _ => false                                                           (* the LeaderState is gone *)
        end in
      ({| nn_e := n'; nn_cur := cur'; nn_noop := noop' |}, emits old s e)
  | NAck pt =>
      match en_role n with
      | Leader =>
          if en_term n <? pt then
            ({| nn_e := become_follower (set_rtv n Leader pt (en_vote n)); nn_cur := nn_cur s; nn_noop := false |}, [None])
          else if pt <? en_term n then (s, [])
          else if nn_noop s then
            ({| nn_e := n; nn_cur := nn_cur s; nn_noop := false |}, [Some (en_id n, en_term n)])
          else (s, [])
      | _ => (s, [])
      end
  end.

Definition nnode0 (id : N) (last : N * N) : nnode := {| nn_e := enode0 id last; nn_cur := 0; nn_noop := false |}.

(* ---- runs: the Some-notifications in emission order, the terms the node led, the AppendEntries it accepted ---- *)
Definition somes (ns : list note) : list (N * N) :=
  flat_map (fun x => match x with Some p => [p] | None => [] end) ns.

Fixpoint nfinal (old : bool) (s : nnode) (evs : list nev) : nnode :=
  match evs with [] => s | ev :: evs' => nfinal old (fst (nstep old s ev)) evs' end.

Fixpoint nnotes (old : bool) (s : nnode) (evs : list nev) : list (N * N) :=
  match evs with
  | [] => []
  | ev :: evs' => somes (snd (nstep old s ev)) ++ nnotes old (fst (nstep old s ev)) evs'
  end.

Fixpoint nled (old : bool) (s : nnode) (evs : list nev) : list N :=
  match evs with
  | [] => []
  | ev :: evs' =>
      let s' := fst (nstep old s ev) in
      (match en_role (nn_e s') with Leader => [en_term (nn_e s')] | _ => [] end) ++ nled old s' evs'
  end.

Fixpoint naccepted (old : bool) (s : nnode) (evs : list nev) : list (N * N) :=
  match evs with
  | [] => []
  | ev :: evs' =>
      (match ev with
       | NE (EAppend l t) => if ae_accepted (nn_e s) t then [(l, t)] else []
       | _ => []
       end) ++ naccepted old (fst (nstep old s ev)) evs'
  end.

(* ---- what an observer of the watch channel records (harness p_cluster.rs): a value is appended when the
   watch holds Some(leader, term) different from the value recorded last; None only clears the watch ---- *)
Definition pair_eqb (a b : N * N) : bool := (fst a =? fst b) && (snd a =? snd b).

Definition push (acc : list (N * N)) (x : N * N) : list (N * N) :=
  match rev acc with
  | y :: _ => if pair_eqb x y then acc else acc ++ [x]
  | [] => [x]
  end.

Definition record (acc : list (N * N)) (ns : list note) : list (N * N) := fold_left push (somes ns) acc.

(* the recorded list along a run (a restart keeps it: it lives with the observer) *)
Fixpoint nrecorded (old : bool) (s : nnode) (evs : list nev) (acc : list (N * N)) : list (N * N) :=
  match evs with
  | [] => acc
  | ev :: evs' => nrecorded old (fst (nstep old s ev)) evs' (record acc (snd (nstep old s ev)))
  end.

(* ---- val glue: [id, [lidx, lterm], [event...]] -> per event [role, term, vote|[], [[leader, term]...]] where the
   last component is the cumulative recorded list; events as in election_probe, plus [5, pt] = NAck pt ---- *)
Definition nev_of_val (v : val) : nev :=
  if vn (vnth v 0) =? 5 then NAck (vn (vnth v 1)) else NE (eev_of_val v).

Definition nobserve (s : nnode) (rec : list (N * N)) : val :=
  let n := nn_e s in
  VL [VN (role_code (en_role n)); VN (en_term n);
      match en_vote n with Some v => VL [VN (v_id v); VN (v_term v); vb (v_committed v)] | None => VL [] end;
      VL (map (fun p => VL [VN (fst p); VN (snd p)]) rec)].

Definition notify_probe_gen (old : bool) (v : val) : val :=
  let s0 := nnode0 (vn (vnth v 0)) (vn (vnth (vnth v 1) 0), vn (vnth (vnth v 1) 1)) in
  let step acc ev :=
    let '(s, rec, out) := acc in
    let '(s', ns) := nstep old s (nev_of_val ev) in
    let rec' := record rec ns in
    (s', rec', out ++ [nobserve s' rec']) in
  VL (snd (fold_left step (vl (vnth v 2)) (s0, [], []))).

Definition notify_probe : val -> val := notify_probe_gen false.
