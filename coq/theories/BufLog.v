(* BufLog — executable model of d-engine-core/src/storage/buffered_raft_log.rs *as coded*:
   the in-memory part of BufferedRaftLog (SkipMap of entries, min/max/next_id atomics, purge boundary,
   per-term first/last index maps, TermSegments) and the operations of the RaftLog trait that the
   Raft roles call.  The IO thread and durable_index are modelled separately (Crash.v).
   No proofs here, so the model still runs when a proof breaks. *)
From Coq Require Import NArith List Bool.
From DE Require Import Val.
Import ListNotations.
Open Scope N_scope.

Record entry := { e_idx : N; e_term : N; e_pl : N }.
Definition entry_eqb (a b : entry) : bool :=
  N.eqb (e_idx a) (e_idx b) && N.eqb (e_term a) (e_term b) && N.eqb (e_pl a) (e_pl b).

(* ---------- SkipMap<u64, Entry> as a list sorted by strictly increasing index ---------- *)
Fixpoint ins1 (l : list entry) (e : entry) : list entry :=
  match l with
  | [] => [e]
  | x :: l' => if e_idx e <? e_idx x then e :: l
               else if e_idx e =? e_idx x then e :: l'
               else x :: ins1 l' e
  end.
Definition ins_all (l : list entry) (es : list entry) : list entry := fold_left ins1 es l.
Definition lookup (l : list entry) (i : N) : option entry := find (fun e => e_idx e =? i) l.
Definition in_range (lo hi : N) (e : entry) : bool := (lo <=? e_idx e) && (e_idx e <=? hi).
Definition range (l : list entry) (lo hi : N) : list entry := filter (in_range lo hi) l.
Definition front_idx (l : list entry) : N := match l with [] => 0 | e :: _ => e_idx e end.
Definition back_idx (l : list entry) : N := match rev l with [] => 0 | e :: _ => e_idx e end.

(* ---------- SkipMap<u64, AtomicU64> (term -> index) as association lists ---------- *)
Definition amap := list (N * N).
Fixpoint aget (m : amap) (k : N) : option N :=
  match m with [] => None | (k', v) :: m' => if k' =? k then Some v else aget m' k end.
Fixpoint aupd (m : amap) (k : N) (f : option N -> N) : amap :=
  match m with
  | [] => [(k, f None)]
  | (k', v) :: m' => if k' =? k then (k', f (Some v)) :: m' else (k', v) :: aupd m' k f
  end.
Fixpoint adel (m : amap) (k : N) : amap :=
  match m with [] => [] | (k', v) :: m' => if k' =? k then m' else (k', v) :: adel m' k end.

(* ---------- TermSegments ---------- *)
Definition SEG_MAX : N := 1024.
Record segs := { sg_lt : N; sg_ls : N; sg_count : N; sg_hist : list (N * N) (* (start, term), append order *) }.
Definition segs0 : segs := {| sg_lt := 0; sg_ls := 0; sg_count := 0; sg_hist := [] |}.

(* reverse scan = the last stored segment (by position) whose start is <= i *)
Definition find_last_le (h : list (N * N)) (i : N) : option N :=
  fold_left (fun acc st => if fst st <=? i then Some (snd st) else acc) h None.

(* TermSegments::get.  [None] also covers "no answer, fall back to the SkipMap". *)
Definition seg_get (s : segs) (i : N) : option N :=
  if sg_lt s =? 0 then None
  else if sg_ls s <=? i then Some (sg_lt s)
  else if SEG_MAX <? sg_count s then None
  else find_last_le (sg_hist s) i.

Definition seg_on_append1 (s : segs) (e : entry) : segs :=
  if e_term e =? sg_lt s then
    if e_idx e <? sg_ls s
    then {| sg_lt := sg_lt s; sg_ls := e_idx e; sg_count := sg_count s; sg_hist := sg_hist s |}
    else s
  else if sg_lt s =? 0 then
    {| sg_lt := e_term e; sg_ls := e_idx e; sg_count := sg_count s; sg_hist := sg_hist s |}
  else
    {| sg_lt := e_term e; sg_ls := e_idx e; sg_count := sg_count s + 1;
       sg_hist := if sg_count s <? SEG_MAX then sg_hist s ++ [(sg_ls s, sg_lt s)] else sg_hist s |}.
Definition seg_on_append (s : segs) (es : list entry) : segs := fold_left seg_on_append1 es s.

(* ---------- the buffered log ---------- *)
Record buf := {
  ents : list entry;
  bmin : N; bmax : N; next_id : N; durable : N;
  pg_idx : N; pg_term : N;
  tfirst : amap; tlast : amap;
  sg : segs
}.
Definition buf0 : buf :=
  {| ents := []; bmin := 0; bmax := 0; next_id := 1; durable := 0; pg_idx := 0; pg_term := 0;
     tfirst := []; tlast := []; sg := segs0 |}.

Definition upd_term_idx (tf tl : amap) (es : list entry) : amap * amap :=
  fold_left (fun acc e =>
    (aupd (fst acc) (e_term e) (fun o => match o with Some v => N.min v (e_idx e) | None => e_idx e end),
     aupd (snd acc) (e_term e) (fun o => match o with Some v => N.max v (e_idx e) | None => e_idx e end)))
    es (tf, tl).

Definition max_idx_of (es : list entry) : N := fold_left (fun m e => N.max m (e_idx e)) es 0.
Definition last_entry (es : list entry) : option entry := match rev es with [] => None | e :: _ => Some e end.

(* insert_to_memory *)
Definition b_insert (b : buf) (es : list entry) : buf :=
  match es with
  | [] => b      (* callers return early on empty input *)
  | first :: _ =>
    let ents' := ins_all (ents b) es in
    let '(tf, tl) := upd_term_idx (tfirst b) (tlast b) es in
    let sg' := seg_on_append (sg b) es in
    let mx := max_idx_of es in
    let next' := if next_id b <=? mx then mx + 1 else next_id b in
    let min' := if (e_idx first <? bmin b) || (bmin b =? 0) then e_idx first else bmin b in
    let max' := match last_entry es with
                | Some l => if bmax b <? e_idx l then e_idx l else bmax b
                | None => bmax b end in
    {| ents := ents'; bmin := min'; bmax := max'; next_id := next'; durable := durable b;
       pg_idx := pg_idx b; pg_term := pg_term b; tfirst := tf; tlast := tl; sg := sg' |}
  end.

(* remove_range (lo ..= hi) with the targeted repair of the per-term first/last maps *)
Definition terms_of (es : list entry) : list N := nodup N.eq_dec (map e_term es).
Definition first_with_term (l : list entry) (t : N) : option N :=
  option_map e_idx (find (fun e => e_term e =? t) l).
Definition last_with_term (l : list entry) (t : N) : option N := first_with_term (rev l) t.
Definition min_idx_term (es : list entry) (t : N) : N :=
  fold_left (fun m e => if e_term e =? t then (if m =? 0 then e_idx e else N.min m (e_idx e)) else m) es 0.
Definition max_idx_term (es : list entry) (t : N) : N :=
  fold_left (fun m e => if e_term e =? t then N.max m (e_idx e) else m) es 0.

Definition b_remove_range (b : buf) (lo hi : N) : buf :=
  let removed := range (ents b) lo hi in
  let kept := filter (fun e => negb (in_range lo hi e)) (ents b) in
  let tf := fold_left (fun m t =>
              match aget m t with
              | Some cur => if min_idx_term removed t <=? cur
                            then match first_with_term kept t with
                                 | Some i => aupd m t (fun _ => i) | None => adel m t end
                            else m
              | None => m end) (terms_of removed) (tfirst b) in
  let tl := fold_left (fun m t =>
              match aget m t with
              | Some cur => if cur <=? max_idx_term removed t
                            then match last_with_term kept t with
                                 | Some i => aupd m t (fun _ => i) | None => adel m t end
                            else m
              | None => m end) (terms_of removed) (tlast b) in
  {| ents := kept; bmin := front_idx kept; bmax := back_idx kept; next_id := next_id b; durable := durable b;
     pg_idx := pg_idx b; pg_term := pg_term b; tfirst := tf; tlast := tl; sg := sg b |}.

(* queries *)
Definition b_entry_term (b : buf) (i : N) : option N :=
  if (bmax b =? 0) || (i <? bmin b) || (bmax b <? i) then
    if (0 <? pg_idx b) && (i =? pg_idx b) then Some (pg_term b) else None
  else match seg_get (sg b) i with
       | Some t => Some t
       | None => option_map e_term (lookup (ents b) i)
       end.

Definition b_last_log_id (b : buf) : option (N * N) (* (index, term) *) :=
  if 0 <? bmax b then option_map (fun e => (e_idx e, e_term e)) (lookup (ents b) (bmax b))
  else if 0 <? pg_idx b then Some (pg_idx b, pg_term b) else None.

Definition lid_of (o : option entry) : option (N * N) := option_map (fun e => (e_idx e, e_term e)) o.

(* reset_internal (the purge boundary is not touched by the code) *)
Definition b_reset (b : buf) : buf :=
  {| ents := []; bmin := 0; bmax := 0; next_id := 1; durable := 0; pg_idx := pg_idx b; pg_term := pg_term b;
     tfirst := []; tlast := []; sg := segs0 |}.

Definition b_append (b : buf) (es : list entry) : buf := b_insert b es.

(* index of the first element satisfying p *)
Fixpoint position {A} (p : A -> bool) (l : list A) : option nat :=
  match l with [] => None | x :: l' => if p x then Some O else option_map S (position p l') end.
(* partition_point for the predicate idx <= last: number of leading elements satisfying it, as
   slice::partition_point returns it on a partitioned slice; on a non-partitioned slice the Rust
   function performs a binary search whose result the model does not claim (the probe only feeds
   index-sorted requests). *)
Fixpoint take_while {A} (p : A -> bool) (l : list A) : nat :=
  match l with [] => O | x :: l' => if p x then S (take_while p l') else O end.

(* filter_out_conflicts_and_append: returns the new log and the reported last-match id *)
Definition b_filter_append (b : buf) (prev pterm : N) (es : list entry) : buf * option (N * N) :=
  if (prev =? 0) && (pterm =? 0) then
    (b_append (b_reset b) es, lid_of (last_entry es))
  else match b_entry_term b prev with
  | Some t =>
    if negb (t =? pterm) then (b, b_last_log_id b) else
    let last := bmax b in
    let skip := take_while (fun e => e_idx e <=? last) es in
    let overlap := firstn skip es in
    let tail := skipn skip es in
    let overlap_safe :=
      match overlap with
      | [] => true
      | first :: _ =>
          (sg_ls (sg b) <=? e_idx first) && (e_term first =? sg_lt (sg b)) &&
          match last_entry overlap with Some l => e_term l =? sg_lt (sg b) | None => true end
      end in
    if overlap_safe then
      match tail with
      | [] => (b, lid_of (last_entry es))
      | _ => (b_append b tail, lid_of (last_entry tail))
      end
    else
      match position (fun e => (last <? e_idx e) ||
                               negb (match b_entry_term b (e_idx e) with Some t' => t' =? e_term e | None => false end)) es with
      | None => (b, lid_of (last_entry es))
      | Some pos =>
          let tl := skipn pos es in
          let d := match tl with e :: _ => e_idx e | [] => 0 end in
          if d <=? last
          then (b_insert (b_remove_range b d 18446744073709551615) tl, lid_of (last_entry tl))
          else (b_append b tl, lid_of (last_entry tl))
      end
  | None => (b, b_last_log_id b)
  end.

(* purge_logs_up_to *)
Definition b_purge (b : buf) (cidx cterm : N) : buf :=
  let b1 := b_remove_range b 0 cidx in
  {| ents := ents b1; bmin := front_idx (ents b1); bmax := back_idx (ents b1); next_id := next_id b1;
     durable := if durable b1 <=? cidx then cidx else durable b1;
     pg_idx := cidx; pg_term := cterm; tfirst := tfirst b1; tlast := tlast b1; sg := sg b1 |}.

(* pre_allocate_id_range count (count > 0): returns first id *)
Definition b_alloc (b : buf) (count : N) : buf * N :=
  ({| ents := ents b; bmin := bmin b; bmax := bmax b; next_id := next_id b + count; durable := durable b;
      pg_idx := pg_idx b; pg_term := pg_term b; tfirst := tfirst b; tlast := tlast b; sg := sg b |}, next_id b).

(* calculate_majority_matched_index *)
Fixpoint insert_desc (x : N) (l : list N) : list N :=
  match l with [] => [x] | y :: l' => if y <=? x then x :: l else y :: insert_desc x l' end.
Definition sort_desc (l : list N) : list N := fold_right insert_desc [] l.
Definition b_majority (b : buf) (cur_term commit : N) (peers : list N) : option N :=
  let ids := sort_desc (peers ++ [bmax b]) in
  let m := nth (Nat.div2 (length ids)) ids 0 in
  if m <? commit then None
  else match lookup (ents b) m with
       | Some e => if e_term e =? cur_term then Some m else None
       | None => None end.

(* ---------- operations and observations for the correspondence check ---------- *)
Inductive op :=
| OAppend (es : list entry)
| OFilter (prev pterm : N) (es : list entry)
| OPurge (cidx cterm : N)
| OReset
| OAlloc (count : N).

Definition vlid (o : option (N * N)) : val :=
  match o with Some (i, t) => VL [VN i; VN t] | None => VL [] end.
Definition ventry (e : entry) : val := VL [VN (e_idx e); VN (e_term e); VN (e_pl e)].

(* observation after every op: the answers of the RaftLog query API on a fixed query window *)
Definition observe (b : buf) (qmax tmax : N) : val :=
  let idxs := map N.of_nat (seq 0 (S (N.to_nat qmax))) in
  let terms := map N.of_nat (seq 0 (S (N.to_nat tmax))) in
  VL [ VN (bmin b); VN (bmax b); vlid (b_last_log_id b);
       VL (map (fun i => vopt (b_entry_term b i)) idxs);
       VL (map (fun t => vopt (aget (tfirst b) t)) terms);
       VL (map (fun t => vopt (aget (tlast b) t)) terms);
       VL (map ventry (range (ents b) 0 qmax));
       VL (map ventry (range (ents b) 2 (qmax - 1))) ].

Definition step (b : buf) (o : op) : buf * val :=
  match o with
  | OAppend es => (b_append b es, VL [])
  | OFilter p t es => let '(b', r) := b_filter_append b p t es in (b', vlid r)
  | OPurge i t => (b_purge b i t, VL [])
  | OReset => (b_reset b, VL [])
  | OAlloc c => let '(b', s) := b_alloc b c in (b', VN s)
  end.

Definition entry_of_val (v : val) : entry :=
  {| e_idx := vn (vnth v 0); e_term := vn (vnth v 1); e_pl := vn (vnth v 2) |}.
Definition op_of_val (v : val) : op :=
  let k := vn (vnth v 0) in
  if k =? 0 then OAppend (map entry_of_val (vl (vnth v 1)))
  else if k =? 1 then OFilter (vn (vnth v 1)) (vn (vnth v 2)) (map entry_of_val (vl (vnth v 3)))
  else if k =? 2 then OPurge (vn (vnth v 1)) (vn (vnth v 2))
  else if k =? 3 then OReset
  else OAlloc (vn (vnth v 1)).

(* input: VL [VN qmax; VN tmax; VL ops]; output: VL of (op result, observation) per op *)
Definition run_ops (v : val) : val :=
  let qmax := vn (vnth v 0) in let tmax := vn (vnth v 1) in
  let ops := map op_of_val (vl (vnth v 2)) in
  VL (snd (fold_left (fun acc o =>
             let '(b, outs) := acc in
             let '(b', r) := step b o in
             (b', outs ++ [VL [r; observe b' qmax tmax]])) ops (buf0, []))).

Definition majority_probe (v : val) : val :=
  (* VL [VL entries; VN cur_term; VN commit; VL peers] *)
  let b := b_append buf0 (map entry_of_val (vl (vnth v 0))) in
  vopt (b_majority b (vn (vnth v 1)) (vn (vnth v 2)) (vnl (vnth v 3))).
