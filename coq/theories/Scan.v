(* Scan — executable model for property C25: scan_prefix of RocksDBStateMachine and FileStateMachine as coded,
   prefix_successor, and the interleaving of a scan with the single apply task.
     * RocksDB: empty prefix -> no entries; otherwise an iterator positioned at the first key >= prefix, bounded
       above by prefix_successor(prefix) when that exists, consumed while keys start with the prefix; the revision
       (last_applied_index) is read AFTER the iteration. A RocksDB iterator reads the implicit snapshot taken
       when it is created.  apply_chunk: write batch to the DB, then update_last_applied.
     * File: under the read lock of `data`: filter starts_with(prefix), then read last_applied_index, still
       under the lock.  apply_chunk: update `data` under the write lock, release it, then update_last_applied.
   Keys and values are byte strings (list N, every element < 256). The store is kept sorted by key
   (RocksDB order; the probe sorts the File result, which comes in HashMap order).
   No proofs here. *)
From Coq Require Import NArith List Bool.
From DE Require Import Val.
Import ListNotations.
Open Scope N_scope.

Definition bytes := list N.
Fixpoint beqb (a b : bytes) : bool :=
  match a, b with [], [] => true | x :: a', y :: b' => (x =? y) && beqb a' b' | _, _ => false end.
(* lexicographic a < b (memcmp order, shorter is smaller) *)
Fixpoint bltb (a b : bytes) : bool :=
  match a, b with
  | _, [] => false
  | [], _ :: _ => true
  | x :: a', y :: b' => if x <? y then true else if y <? x then false else bltb a' b'
  end.
Definition bleb (a b : bytes) : bool := negb (bltb b a).
Fixpoint starts_with (p k : bytes) : bool :=
  match p, k with [] , _ => true | _ :: _, [] => false | x :: p', y :: k' => (x =? y) && starts_with p' k' end.

(* prefix_successor: drop trailing 0xFF bytes, increment the last remaining byte *)
Fixpoint strip_ff_rev (r : bytes) : bytes :=
  match r with x :: r' => if x =? 255 then strip_ff_rev r' else r | [] => [] end.
Definition prefix_successor (p : bytes) : option bytes :=
  match strip_ff_rev (rev p) with
  | [] => None
  | x :: r' => Some (rev ((x + 1) :: r'))
  end.

Definition store := list (bytes * bytes).
Fixpoint sget (s : store) (k : bytes) : option bytes :=
  match s with [] => None | (k', v) :: s' => if beqb k' k then Some v else sget s' k end.
Fixpoint sput (s : store) (k v : bytes) : store :=
  match s with
  | [] => [(k, v)]
  | (k', v') :: s' => if beqb k' k then (k, v) :: s' else if bltb k k' then (k, v) :: (k', v') :: s' else (k', v') :: sput s' k v
  end.
Definition sdel (s : store) (k : bytes) : store := filter (fun p => negb (beqb (fst p) k)) s.

Inductive cmd := CPut (k v : bytes) | CDel (k : bytes) | CCas (k : bytes) (exp : option bytes) (v : bytes) | CNoop.
Definition obeqb (a b : option bytes) : bool :=
  match a, b with Some x, Some y => beqb x y | None, None => true | _, _ => false end.
Definition apply_cmd (s : store) (c : cmd) : store :=
  match c with
  | CPut k v => sput s k v
  | CDel k => sdel s k
  | CCas k e v => if obeqb (sget s k) e then sput s k v else s
  | CNoop => s
  end.
Definition apply_chunk (s : store) (ch : list cmd) : store := fold_left apply_cmd ch s.

(* the specification of a prefix scan *)
Definition scan_spec (p : bytes) (s : store) : store := filter (fun e => starts_with p (fst e)) s.

(* RocksDB: seek + upper bound + starts_with guard (the iteration stops at the first key without the prefix) *)
Fixpoint take_while {A} (f : A -> bool) (l : list A) : list A :=
  match l with x :: l' => if f x then x :: take_while f l' else [] | [] => [] end.
Definition rocks_iter (p : bytes) (s : store) : store :=
  match p with
  | [] => []
  | _ =>
    let inb := fun e : bytes * bytes =>
      bleb p (fst e) && match prefix_successor p with Some u => bltb (fst e) u | None => true end in
    take_while (fun e => starts_with p (fst e)) (filter inb s)
  end.
Definition file_iter (p : bytes) (s : store) : store := scan_spec p s.

Inductive engine := EFile | ERocks.
Definition iter_of (en : engine) := match en with EFile => file_iter | ERocks => rocks_iter end.

(* ---- interleaving of one scanner with the apply task ----
   chunks still to be applied are in m_todo; m_mid = Some n: the data of the next chunk is written but
   last_applied is not yet n (between the two steps of apply_chunk). *)
Record mach := {
  m_data : store;
  m_applied : N;                       (* last_applied_index *)
  m_mid : option N;
  m_todo : list (list cmd);
  m_iter : option store;               (* a scan is between its two steps: entries already collected *)
  m_out : list (store * N)             (* completed scans: (entries, revision) *)
}.
Inductive label := LWrite | LPublish | LIter (p : bytes) | LRev.

Definition mstep (en : engine) (m : mach) (l : label) : mach :=
  match l with
  | LWrite =>
      match m_mid m, m_todo m, (match en, m_iter m with EFile, Some _ => false | _, _ => true end) with
      | None, ch :: rest, true =>
          {| m_data := apply_chunk (m_data m) ch; m_applied := m_applied m;
             m_mid := Some (m_applied m + N.of_nat (length ch)); m_todo := rest; m_iter := m_iter m; m_out := m_out m |}
      | _, _, _ => m      (* not enabled: apply busy, nothing to apply, or (File) the scanner holds the read lock *)
      end
  | LPublish =>
      match m_mid m with
      | Some n => {| m_data := m_data m; m_applied := n; m_mid := None; m_todo := m_todo m; m_iter := m_iter m; m_out := m_out m |}
      | None => m
      end
  | LIter p =>
      match m_iter m with
      | None => {| m_data := m_data m; m_applied := m_applied m; m_mid := m_mid m; m_todo := m_todo m;
                   m_iter := Some (iter_of en p (m_data m)); m_out := m_out m |}
      | Some _ => m
      end
  | LRev =>
      match m_iter m with
      | Some es => {| m_data := m_data m; m_applied := m_applied m; m_mid := m_mid m; m_todo := m_todo m;
                      m_iter := None; m_out := m_out m ++ [(es, m_applied m)] |}
      | None => m
      end
  end.
Definition mrun (en : engine) (ls : list label) (m : mach) : mach := fold_left (mstep en) ls m.
Definition minit (chunks : list (list cmd)) : mach :=
  {| m_data := []; m_applied := 0; m_mid := None; m_todo := chunks; m_iter := None; m_out := [] |}.

(* reference: the state after applying all entries with index <= r (entries are numbered from 1 over the
   concatenation of the chunks) *)
Definition state_at (chunks : list (list cmd)) (r : N) : store :=
  fold_left apply_cmd (firstn (N.to_nat r) (concat chunks)) [].

(* ---- val glue ----
   input [engine, ops]; op = [0, [cmd..]] apply a chunk (both steps) | [1, prefix] scan (both steps)
   cmd = [0,k,v] | [1,k] | [2,k,[] | [exp],v] | [3];  output: per scan [[[k,v]..], revision] *)
Definition cmd_of_val (v : val) : cmd :=
  let t := vn (vnth v 0) in
  if t =? 0 then CPut (vnl (vnth v 1)) (vnl (vnth v 2))
  else if t =? 1 then CDel (vnl (vnth v 1))
  else if t =? 2 then CCas (vnl (vnth v 1)) (match vl (vnth v 2) with [] => None | e :: _ => Some (vnl e) end) (vnl (vnth v 3))
  else CNoop.

Definition scan_probe (v : val) : val :=
  let en := if vn (vnth v 0) =? 0 then EFile else ERocks in
  let step := fun (m : mach) (o : val) =>
    if vn (vnth o 0) =? 0 then
      let ch := map cmd_of_val (vl (vnth o 1)) in
      mrun en [LWrite; LPublish] {| m_data := m_data m; m_applied := m_applied m; m_mid := m_mid m; m_todo := [ch];
                                    m_iter := m_iter m; m_out := m_out m |}
    else mrun en [LIter (vnl (vnth o 1)); LRev] m in
  let m := fold_left step (vl (vnth v 1)) (minit []) in
  VL (map (fun r => VL [VL (map (fun e => VL [vns (fst e); vns (snd e)]) (fst r)); VN (snd r)]) (m_out m)).
