(* SnapReplay — executable model of snapshot creation, installation and replay as coded:
     d-engine-core/src/state_machine_handler/default_state_machine_handler.rs
        create_snapshot: raw := state_machine.last_applied();
                         last_included.index := raw.index.saturating_sub(snapshot_config.retained_log_entries);
                         state_machine.generate_snapshot_data(temp, last_included)     (runs in a spawned task, the
                         commit handler keeps applying meanwhile; snapshot_lock is taken by create_snapshot only)
        apply_snapshot_stream_from_leader: assemble, decompress, state_machine.apply_snapshot_from_file(metadata, dir)
     StateMachine::generate_snapshot_data (File: copies the whole in-memory map; RocksDB: flush + export of the
        state-machine column families) captures the state AS IT IS at capture time, the label is only recorded;
     StateMachine::apply_snapshot_from_file (both engines): data := snapshot content, last_applied := last_included;
     afterwards the node applies the log entries above the last_applied it reports (commit handler pending_range,
        follower purge to the boundary, leader resets next_index).
   The key-value semantics is DE.SMCrash.apply. No proofs here. *)
From Coq Require Import NArith List Bool.
From DE Require Import Val SMCrash.
Import ListNotations.
Open Scope N_scope.

Record snapshot := { s_label : N; s_content : kv }.

(* the source node has applied the first [p] commands when create_snapshot reads last_applied; [c] further commands
   are applied by the commit handler before generate_snapshot_data captures the state; [r] = retained_log_entries *)
Definition applied_at_label (cmds : list cmd) (p : nat) : nat := Nat.min p (length cmds).
Definition applied_at_capture (cmds : list cmd) (p c : nat) : nat :=
  (applied_at_label cmds p + Nat.min c (length cmds - applied_at_label cmds p))%nat.

Definition create_snapshot (cmds : list cmd) (p : nat) (r : N) (c : nat) : snapshot :=
  {| s_label := N.of_nat (applied_at_label cmds p) - r;          (* saturating_sub: N.sub truncates at 0 *)
     s_content := apply_all (firstn (applied_at_capture cmds p c) cmds) kv0 |}.

(* apply_snapshot_from_file on a fresh node: (state, reported last_applied) *)
Definition install (s : snapshot) : kv * N := (s_content s, s_label s).

(* the installed node then applies the log entries above its last_applied *)
Definition replay_log (cmds : list cmd) (st : kv * N) : kv := reapply (snd st) cmds (fst st).

Definition install_and_replay (cmds : list cmd) (p : nat) (r : N) (c : nat) : kv :=
  replay_log cmds (install (create_snapshot cmds p r c)).

(* ---------------------------------------------------------------- val glue *)
(* input [engine, keys, cmds, p, r, c, mode, chunk]: both engines behave alike at this level; mode 0 drives
   DefaultStateMachineHandler::create_snapshot in one piece (no concurrent apply, c ignored), mode 1 splits it by hand *)
Definition snap_probe (v : val) : val :=
  let keys := vnl (vnth v 1) in
  let cmds := map cmd_of_val (vl (vnth v 2)) in
  let p := N.to_nat (vn (vnth v 3)) in
  let r := vn (vnth v 4) in
  let c := if vn (vnth v 6) =? 0 then O else N.to_nat (vn (vnth v 5)) in
  let s := create_snapshot cmds p r c in
  let st := install s in
  VL [VN (s_label s); VN (snd st); dump keys (fst st); dump keys (replay_log cmds st)].
