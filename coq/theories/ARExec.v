(* ARExec — ARExec for the PROPOSED system DE.AbstractRaft (generated from ARExec.v; one line differs).
   ARExec — an EXECUTABLE version of the steps of DE.AbstractRaft.

   [aexec nodes s l] checks every guard of the [astep] constructor named by the label [l] with boolean
   tests and returns the successor state written exactly as in [astep] (else [None]).  A list of labels
   is run with [aexec_all]; [obs_matches] compares an abstract state with an observed concrete cluster
   state (terms, logs as (term, payload) lists, commit indexes).  The glue at the end decodes
   (nodes, term offset, steps) from [val] and gives the two functions the driver evaluates with
   vm_compute on every real execution of the cluster simulator:
     [refine_ok]   : every label is accepted and the abstract state matches the observation at every checkpoint
     [refine_fail] : 0 if so, else a code naming the first failing label / checkpoint.
   Soundness ([aexec .. = Some s' -> astep .. s s'], hence [reach]) is proved in proofs/ARExecSound.v.
   No proofs here. *)
From Coq Require Import NArith List Bool.
From DE Require Import Val AbstractRaft.
Import ListNotations.
Open Scope N_scope.

Inductive alabel :=
| LTimeout (n : N)
| LVoteGrant (v c t : N) (last : N * N)
| LVoteDeny (v t : N)
| LBecomeLeader (n : N) (vs : list N)
| LLeaderAppend (n pl : N)
| LAppendAccept (f l t prev k lc : N)
| LAppendReject (f t : N)
| LAdvanceCommit (n ci : N) (vs : list N).

(* ---------------------------------------------------------------- boolean tests *)
Definition mem_n (x : N) (l : list N) : bool := existsb (N.eqb x) l.
Definition pair_eqb (a b : N * N) : bool := (fst a =? fst b) && (snd a =? snd b).
Definition trip_eqb (a b : N * N * N) : bool := pair_eqb (fst a) (fst b) && (snd a =? snd b).
Definition cand_eqb (a b : N * N * (N * N)) : bool := pair_eqb (fst a) (fst b) && pair_eqb (snd a) (snd b).
Definition mem_pair (x : N * N) (l : list (N * N)) : bool := existsb (pair_eqb x) l.
Definition mem_trip (x : N * N * N) (l : list (N * N * N)) : bool := existsb (trip_eqb x) l.
Definition mem_cand (x : N * N * (N * N)) (l : list (N * N * (N * N))) : bool := existsb (cand_eqb x) l.

Fixpoint nodup_b (l : list N) : bool :=
  match l with [] => true | x :: r => negb (mem_n x r) && nodup_b r end.
Definition incl_b (a b : list N) : bool := forallb (fun x => mem_n x b) a.
Definition majority_b (nodes vs : list N) : bool :=
  nodup_b vs && incl_b vs nodes && Nat.ltb (length nodes) (2 * length vs).

Definition vote_free_b (o : option N) (c : N) : bool :=
  match o with None => true | Some x => x =? c end.

(* some candidacy of n in term t is recorded *)
Definition has_cand (n t : N) (l : list (N * N * (N * N))) : bool :=
  existsb (fun c => pair_eqb (fst c) (n, t)) l.
(* some leader of term t is recorded *)
Definition has_leader (t : N) (l : list (N * N)) : bool := existsb (fun x => snd x =? t) l.
(* v acknowledged the leader log of term t up to at least index i *)
Definition has_ack (v t i : N) (l : list (N * N * N)) : bool :=
  existsb (fun a => pair_eqb (fst a) (v, t) && (i <=? snd a)) l.

(* ---------------------------------------------------------------- the executable step *)
Definition aexec (nodes : list N) (s : astate) (l : alabel) : option astate :=
  match l with
  | LTimeout n =>
      if mem_n n nodes then
        Some {| a_cur := upd (a_cur s) n (a_cur s n + 1); a_vote := upd (a_vote s) n (Some n);
                a_log := a_log s; a_commit := a_commit s;
                g_votes := (n, a_cur s n + 1, n) :: g_votes s;
                g_cand := (n, a_cur s n + 1, last_id (a_log s n)) :: g_cand s;
                g_leaders := g_leaders s; g_llog := g_llog s; g_lcommit := g_lcommit s; g_acks := g_acks s |}
      else None
  | LVoteGrant v c t last =>
      if mem_n v nodes && mem_cand (c, t, last) (g_cand s) && negb (v =? c) && (a_cur s v <=? t)
         && up_to_date (last_id (a_log s v)) last
         && ((a_cur s v <? t) || vote_free_b (a_vote s v) c) then
        Some {| a_cur := upd (a_cur s) v t; a_vote := upd (a_vote s) v (Some c);
                a_log := a_log s; a_commit := a_commit s;
                g_votes := (v, t, c) :: g_votes s; g_cand := g_cand s;
                g_leaders := g_leaders s; g_llog := g_llog s; g_lcommit := g_lcommit s; g_acks := g_acks s |}
      else None
  | LVoteDeny v t =>
      if mem_n v nodes && (a_cur s v <? t) then
        Some {| a_cur := upd (a_cur s) v t; a_vote := upd (a_vote s) v None;
                a_log := a_log s; a_commit := a_commit s;
                g_votes := g_votes s; g_cand := g_cand s;
                g_leaders := g_leaders s; g_llog := g_llog s; g_lcommit := g_lcommit s; g_acks := g_acks s |}
      else None
  | LBecomeLeader n vs =>
      if mem_n n nodes && has_cand n (a_cur s n) (g_cand s) && negb (has_leader (a_cur s n) (g_leaders s))
         && majority_b nodes vs && forallb (fun v => mem_trip (v, a_cur s n, n) (g_votes s)) vs then
        Some {| a_cur := a_cur s; a_vote := a_vote s; a_log := a_log s; a_commit := a_commit s;
                g_votes := g_votes s; g_cand := g_cand s;
                g_leaders := (n, a_cur s n) :: g_leaders s;
                g_llog := upd (g_llog s) (a_cur s n) (a_log s n);
                g_lcommit := upd (g_lcommit s) (a_cur s n) (a_commit s n); g_acks := g_acks s |}
      else None
  | LLeaderAppend n pl =>
      if mem_pair (n, a_cur s n) (g_leaders s) then
        Some {| a_cur := a_cur s; a_vote := a_vote s;
                a_log := upd (a_log s) n (a_log s n ++ [{| a_term := a_cur s n; a_pl := pl |}]);
                a_commit := a_commit s;
                g_votes := g_votes s; g_cand := g_cand s; g_leaders := g_leaders s;
                g_llog := upd (g_llog s) (a_cur s n) (a_log s n ++ [{| a_term := a_cur s n; a_pl := pl |}]);
                g_lcommit := g_lcommit s; g_acks := g_acks s |}
      else None
  | LAppendAccept f l t prev k lc =>
      if mem_n f nodes && mem_pair (l, t) (g_leaders s) && negb (f =? l) && (a_cur s f <=? t)
         && (prev + k <=? N.of_nat (length (g_llog s t))) && (lc <=? g_lcommit s t)
         && (term_at (a_log s f) prev =? term_at (g_llog s t) prev)
         && (prev <=? N.of_nat (length (a_log s f))) then
        Some {| a_cur := upd (a_cur s) f t;
                a_vote := upd (a_vote s) f (if a_cur s f <? t then None else a_vote s f);
                a_log := upd (a_log s) f (merge_from (a_log s f) (N.to_nat prev) (slice (g_llog s t) prev k));
                a_commit := upd (a_commit s) f (N.max (a_commit s f) (N.min lc (prev + k)));
                g_votes := g_votes s; g_cand := g_cand s; g_leaders := g_leaders s;
                g_llog := g_llog s; g_lcommit := g_lcommit s;
                g_acks := (f, t, prev + k) :: g_acks s |}
      else None
  | LAppendReject f t =>
      if mem_n f nodes && (a_cur s f <=? t) && has_leader t (g_leaders s) then
        Some {| a_cur := upd (a_cur s) f t;
                a_vote := upd (a_vote s) f (if a_cur s f <? t then None else a_vote s f);
                a_log := a_log s; a_commit := a_commit s;
                g_votes := g_votes s; g_cand := g_cand s; g_leaders := g_leaders s;
                g_llog := g_llog s; g_lcommit := g_lcommit s; g_acks := g_acks s |}
      else None
  | LAdvanceCommit n ci vs =>
      if mem_pair (n, a_cur s n) (g_leaders s) && (a_commit s n <? ci) && (ci <=? N.of_nat (length (a_log s n)))
         && (term_at (a_log s n) ci =? a_cur s n) && majority_b nodes vs
         && forallb (fun v => (v =? n) || has_ack v (a_cur s n) ci (g_acks s)) vs then
        Some {| a_cur := a_cur s; a_vote := a_vote s; a_log := a_log s;
                a_commit := upd (a_commit s) n ci;
                g_votes := g_votes s; g_cand := g_cand s; g_leaders := g_leaders s; g_llog := g_llog s;
                g_lcommit := upd (g_lcommit s) (a_cur s n) (N.max (g_lcommit s (a_cur s n)) ci);
                g_acks := g_acks s |}
      else None
  end.

Fixpoint aexec_all (nodes : list N) (s : astate) (ls : list alabel) : option astate :=
  match ls with
  | [] => Some s
  | l :: ls' => match aexec nodes s l with Some s' => aexec_all nodes s' ls' | None => None end
  end.

(* ---------------------------------------------------------------- observation of a concrete cluster state
   One observed node = (term, commit index, log as (term, payload) list).  Concrete terms start at 1 while
   [ainit] has term 0 everywhere, and concrete entry terms are >= 2 (the first election asks for term 2):
   the comparison is modulo the uniform renaming  concrete term = abstract term + off  (off = 1 for the
   cluster simulator); payloads, log lengths and commit indexes are compared as they are. *)
Record onode := { o_term : N; o_commit : N; o_log : list (N * N) }.

Fixpoint log_matches (off : N) (al : list aentry) (ol : list (N * N)) : bool :=
  match al, ol with
  | [], [] => true
  | e :: al', (t, p) :: ol' => (a_term e + off =? t) && (a_pl e =? p) && log_matches off al' ol'
  | _, _ => false
  end.

Definition node_matches (off : N) (s : astate) (n : N) (o : onode) : bool :=
  (a_cur s n + off =? o_term o) && (a_commit s n =? o_commit o) && log_matches off (a_log s n) (o_log o).

Fixpoint obs_matches (off : N) (nodes : list N) (s : astate) (obs : list onode) : bool :=
  match nodes, obs with
  | [], [] => true
  | n :: nodes', o :: obs' => node_matches off s n o && obs_matches off nodes' s obs'
  | _, _ => false
  end.

(* ---------------------------------------------------------------- a trace: steps = (labels, optional checkpoint) *)
Definition step := (list alabel * option (list onode))%type.

Fixpoint run_steps (off : N) (nodes : list N) (s : astate) (steps : list step) : option astate :=
  match steps with
  | [] => Some s
  | (ls, cp) :: rest =>
      match aexec_all nodes s ls with
      | None => None
      | Some s' =>
          if match cp with None => true | Some obs => obs_matches off nodes s' obs end
          then run_steps off nodes s' rest else None
      end
  end.

(* position of the first failure: 0 = none; 1 + 1000*i + j = label j of step i is refused by [aexec];
   1 + 1000*i + 999 = the checkpoint after step i does not match *)
Fixpoint first_bad_label (nodes : list N) (s : astate) (ls : list alabel) (j : N) : astate + N :=
  match ls with
  | [] => inl s
  | l :: ls' => match aexec nodes s l with Some s' => first_bad_label nodes s' ls' (j + 1) | None => inr j end
  end.

Fixpoint first_failure (off : N) (nodes : list N) (s : astate) (steps : list step) (i : N) : N :=
  match steps with
  | [] => 0
  | (ls, cp) :: rest =>
      match first_bad_label nodes s ls 0 with
      | inr j => 1 + 1000 * i + j
      | inl s' =>
          if match cp with None => true | Some obs => obs_matches off nodes s' obs end
          then first_failure off nodes s' rest (i + 1) else 1 + 1000 * i + 999
      end
  end.

(* ---------------------------------------------------------------- val glue
   label   : [0,n] | [1,v,c,t,li,lt] | [2,v,t] | [3,n,[vs]] | [4,n,pl] | [5,f,l,t,prev,k,lc] | [6,f,t] | [7,n,N,[vs]]
   onode   : [term, commit, [[term, pl]...]]
   step    : [[label...], [] | [[onode...]]]
   trace   : [[nodes...], off, [step...]] *)
Definition dec_label (v : val) : option alabel :=
  let a i := vn (vnth v i) in
  match a 0%nat with
  | 0 => Some (LTimeout (a 1%nat))
  | 1 => Some (LVoteGrant (a 1%nat) (a 2%nat) (a 3%nat) (a 4%nat, a 5%nat))
  | 2 => Some (LVoteDeny (a 1%nat) (a 2%nat))
  | 3 => Some (LBecomeLeader (a 1%nat) (vnl (vnth v 2)))
  | 4 => Some (LLeaderAppend (a 1%nat) (a 2%nat))
  | 5 => Some (LAppendAccept (a 1%nat) (a 2%nat) (a 3%nat) (a 4%nat) (a 5%nat) (a 6%nat))
  | 6 => Some (LAppendReject (a 1%nat) (a 2%nat))
  | 7 => Some (LAdvanceCommit (a 1%nat) (a 2%nat) (vnl (vnth v 3)))
  | _ => None
  end.

Fixpoint dec_labels (vs : list val) : option (list alabel) :=
  match vs with
  | [] => Some []
  | v :: vs' => match dec_label v, dec_labels vs' with Some l, Some ls => Some (l :: ls) | _, _ => None end
  end.

Definition dec_onode (v : val) : onode :=
  {| o_term := vn (vnth v 0); o_commit := vn (vnth v 1);
     o_log := map (fun e => (vn (vnth e 0), vn (vnth e 1))) (vl (vnth v 2)) |}.

Definition dec_step (v : val) : option step :=
  match dec_labels (vl (vnth v 0)) with
  | None => None
  | Some ls => Some (ls, match vl (vnth v 1) with [] => None | o :: _ => Some (map dec_onode (vl o)) end)
  end.

Fixpoint dec_steps (vs : list val) : option (list step) :=
  match vs with
  | [] => Some []
  | v :: vs' => match dec_step v, dec_steps vs' with Some s, Some ss => Some (s :: ss) | _, _ => None end
  end.

Definition labels_of (steps : list step) : list alabel := concat (map fst steps).

Definition refine_ok (inp out : val) : bool :=
  match dec_steps (vl (vnth inp 2)) with
  | None => false
  | Some steps =>
      match run_steps (vn (vnth inp 1)) (vnl (vnth inp 0)) ainit steps with Some _ => true | None => false end
  end.

Definition refine_fail (inp : val) : N :=
  match dec_steps (vl (vnth inp 2)) with
  | None => 999999999
  | Some steps => first_failure (vn (vnth inp 1)) (vnl (vnth inp 0)) ainit steps 0
  end.
