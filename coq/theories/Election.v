(* Election — executable model of one node's vote/term handling as coded:
   election_handler.rs (handle_vote_request, check_vote_request_is_legal, the majority test of
   broadcast_vote_requests), the ReceiveVoteRequest / AppendEntries arms of follower_state.rs,
   candidate_state.rs and leader_state.rs as far as term, vote and role are concerned, the candidate's
   tick, raft.rs handle_internal_event (BecomeFollower / BecomeCandidate / BecomeLeader) and what a restart
   reloads (hard state is written only when the Raft object is dropped). No proofs here. *)
From Coq Require Import NArith List Bool.
From DE Require Import Val.
Import ListNotations.
Open Scope N_scope.

Inductive role := Follower | Candidate | Leader.
Definition role_code (r : role) : N := match r with Follower => 1 | Candidate => 2 | Leader => 3 end.

Record vote := { v_id : N; v_term : N; v_committed : bool (* set when the vote records an established leader *) }.
Record enode := {
  en_id : N; en_role : role; en_term : N; en_vote : option vote;
  en_last : N * N;            (* last log id (index, term) of this node; only a new leader's noop changes it here *)
  en_saved : N * option vote  (* what a restart finds in the meta store *)
}.

(* lib.rs is_target_log_more_recent: the candidate's log is at least as up to date *)
Definition log_ok (mine cand : N * N) : bool :=
  (snd mine <? snd cand) || ((snd cand =? snd mine) && (fst mine <=? fst cand)).

Definition set_rtv (s : enode) (r : role) (t : N) (v : option vote) : enode :=
  {| en_id := en_id s; en_role := r; en_term := t; en_vote := v; en_last := en_last s; en_saved := en_saved s |}.

(* raft.rs BecomeFollower: role change; the vote is forgotten only if it belongs to an older term *)
Definition become_follower (s : enode) : enode :=
  let keep := match en_vote s with Some v => en_term s <=? v_term v | None => false end in
  set_rtv s Follower (en_term s) (if keep then en_vote s else None).

(* ElectionHandler::handle_vote_request + the follower arm *)
Definition follower_vote (s : enode) (cand t : N) (cl : N * N) : enode * bool :=
  let voted := if en_term s <? t then None else en_vote s in
  let grant :=
    if t <? en_term s then false
    else if negb (log_ok (en_last s) cl) then false
    else match voted with
         | Some v => (v_term v =? t) && (v_id v =? cand)
         | None => true
         end in
  let term' := if en_term s <? t then t else en_term s in
  (set_rtv s Follower term' (if grant then Some {| v_id := cand; v_term := t; v_committed := false |} else en_vote s), grant).

(* check_vote_request_is_legal (candidate arm) *)
Definition candidate_legal (s : enode) (t : N) (cl : N * N) : bool :=
  if t <? en_term s then false
  else if negb (log_ok (en_last s) cl) then false
  else match en_vote s with
       | Some v => (v_id v =? 0) || (v_term v <? t)
       | None => true
       end.

Inductive eev :=
| EVoteReq (cand t lidx lterm : N)     (* a VoteRequest arrives *)
| EAppend (leader t : N)               (* an AppendEntries of term t from leader arrives (log part not modelled here) *)
| ETimeout (granted : N) (higher : N) (voters : N) (denied : N)
     (* election timeout: become candidate if follower, then one round: [granted] other voters granted, a
        denial carried term [higher] (0 = none higher), the cluster has [voters] other voters; [denied] responders denied (their reported last log id is (0,0)) *)
| EStepDownSame                        (* BecomeFollower(None) without a term change *)
| ERestart (graceful : bool).

(* BecomeLeader: the new leader appends its noop entry, which becomes its last log id *)
Definition lead (s : enode) (t : N) : enode :=
  {| en_id := en_id s; en_role := Leader; en_term := t;
     en_vote := Some {| v_id := en_id s; v_term := t; v_committed := true |};
     en_last := (fst (en_last s) + 1, t); en_saved := en_saved s |}.

(* is_majority(succeed, required) *)
Definition is_majority (succeed required : N) : bool := required / 2 <? succeed.

Definition estep (s : enode) (e : eev) : enode * N (* 1 = granted / became leader, 0 otherwise *) :=
  match e with
  | EVoteReq cand t li lt =>
      match en_role s with
      | Follower => let '(s', g) := follower_vote s cand t (li, lt) in (s', if g then 1 else 0)
      | Candidate =>
          if candidate_legal s t (li, lt) then
            let s1 := become_follower (set_rtv s Candidate t (en_vote s)) in
            let '(s', g) := follower_vote s1 cand t (li, lt) in (s', if g then 1 else 0)
          else (s, 0)
      | Leader =>
          if en_term s <? t then
            let s1 := become_follower (set_rtv s Leader t (en_vote s)) in
            let '(s', g) := follower_vote s1 cand t (li, lt) in (s', if g then 1 else 0)
          else (s, 0)
      end
  | EAppend l t =>
      match en_role s with
      | Follower =>
          if t <? en_term s then (s, 0)
          else (set_rtv s Follower (N.max (en_term s) t) (Some {| v_id := l; v_term := t; v_committed := true |}), 0)
      | Candidate =>
          if en_term s <=? t then
            let s1 := become_follower (set_rtv s Candidate (N.max (en_term s) t) (en_vote s)) in
            (set_rtv s1 Follower (en_term s1) (Some {| v_id := l; v_term := t; v_committed := true |}), 0)
          else (s, 0)
      | Leader =>
          if en_term s <? t then
            let s1 := become_follower (set_rtv s Leader t (en_vote s)) in
            (set_rtv s1 Follower (en_term s1) (Some {| v_id := l; v_term := t; v_committed := true |}), 0)
          else (s, 0)
      end
  | ETimeout granted higher voters denied =>
      match en_role s with
      | Leader => (s, 0)
      | _ =>
          (* follower: BecomeCandidate; candidate tick: term+1, vote for itself, one round *)
          let t := en_term s + 1 in
          let s1 := set_rtv s Candidate t (Some {| v_id := en_id s; v_term := t; v_committed := false |}) in
          if (voters =? 0) then (lead s1 t, 1)   (* single-voter shortcut *)
          else if (0 <? denied) && (0 <? higher) && (t <? higher) then (become_follower (set_rtv s1 Candidate higher (en_vote s1)), 0)
          (* a denial from a responder whose log is at least as up to date aborts the round (LogConflict) *)
          else if (0 <? denied) && log_ok (en_last s) (0, 0) then (s1, 0)
          else if is_majority (granted + 1) (voters + 1) then (lead s1 t, 1)
          else (s1, 0)
      end
  | EStepDownSame =>
      match en_role s with
      | Leader => (become_follower s, 0)
      | _ => (s, 0)
      end
  | ERestart graceful =>
      let saved := if graceful then (en_term s, en_vote s) else en_saved s in
      ({| en_id := en_id s; en_role := Follower; en_term := fst saved; en_vote := snd saved;
          en_last := en_last s; en_saved := saved |}, 0)
  end.

Definition enode0 (id : N) (last : N * N) : enode :=
  {| en_id := id; en_role := Follower; en_term := 1; en_vote := None; en_last := last; en_saved := (1, None) |}.

(* the votes this node hands out along a run: (term, candidate, regrant), self-votes included.
   [regrant] marks a grant to the candidate whose leadership of that term this node had already
   recorded (vote record committed to it): the only way the code grants "again" within a term. *)
Definition grant_of (s : enode) (e : eev) : option (N * N * bool) :=
  match e with
  | EVoteReq cand t _ _ =>
      if snd (estep s e) =? 1 then
        Some (t, cand, match en_vote s with
                       | Some v => v_committed v && (v_id v =? cand) && (v_term v =? t) && negb (en_term s <? t)
                       | None => false end)
      else None
  | ETimeout _ _ _ _ => match en_role s with Leader => None | _ => Some (en_term s + 1, en_id s, false) end
  | _ => None
  end.

Fixpoint erun (s : enode) (es : list eev) : enode * list (N * N * bool) :=
  match es with
  | [] => (s, [])
  | e :: es' => let '(s', gs) := erun (fst (estep s e)) es' in
                (s', match grant_of s e with Some g => g :: gs | None => gs end)
  end.

(* ---- val glue: [id, [lidx, lterm], [event...]] -> per event [role, term, vote|[], result] ---- *)
Definition eev_of_val (v : val) : eev :=
  let k := vn (vnth v 0) in
  if k =? 0 then EVoteReq (vn (vnth v 1)) (vn (vnth v 2)) (vn (vnth v 3)) (vn (vnth v 4))
  else if k =? 1 then EAppend (vn (vnth v 1)) (vn (vnth v 2))
  else if k =? 2 then ETimeout (vn (vnth v 1)) (vn (vnth v 2)) (vn (vnth v 3)) (vn (vnth v 4))
  else if k =? 3 then EStepDownSame
  else ERestart (negb (vn (vnth v 1) =? 0)).

Definition eobserve (s : enode) (r : N) : val :=
  VL [VN (role_code (en_role s)); VN (en_term s);
      match en_vote s with Some v => VL [VN (v_id v); VN (v_term v); vb (v_committed v)] | None => VL [] end; VN r].

Definition election_probe (v : val) : val :=
  let s0 := enode0 (vn (vnth v 0)) (vn (vnth (vnth v 1) 0), vn (vnth (vnth v 1) 1)) in
  VL (snd (fold_left (fun acc ev => let '(s', r) := estep (fst acc) (eev_of_val ev) in (s', snd acc ++ [eobserve s' r]))
                     (vl (vnth v 2)) (s0, []))).

(* ---- one election round over the transport (GrpcTransport::send_vote_requests + broadcast_vote_requests) ----
   voters: (peer id, kind) as the membership lists them; kind 0 = reachable and granting, 3 = reachable and denying
   (same term, log (0,0)), anything else = no channel / RPC error.  The electorate the majority is taken over is every
   listed voter except the candidate itself, each once, whether or not it can be reached. *)
Fixpoint electorate (me : N) (seen : list N) (vs : list (N * N)) : list (N * N) :=
  match vs with
  | [] => []
  | v :: r => if (fst v =? me) || existsb (N.eqb (fst v)) seen then electorate me seen r
              else v :: electorate me (fst v :: seen) r
  end.
Definition round_granted (el : list (N * N)) : N := N.of_nat (length (filter (fun x => snd x =? 0) el)).
Definition round_denied (el : list (N * N)) : N := N.of_nat (length (filter (fun x => snd x =? 3) el)).
Definition round_node (me t : N) : enode :=
  {| en_id := me; en_role := Follower; en_term := t - 1; en_vote := None; en_last := (0, 0); en_saved := (t - 1, None) |}.
Definition round_won (me t : N) (vs : list (N * N)) : N :=
  let el := electorate me [] vs in
  match el with
  | [] => 0      (* the `!peer_ids.is_empty()` guard; the single-voter shortcut is is_single_node_cluster, not this *)
  | _ => snd (estep (round_node me t) (ETimeout (round_granted el) 0 (N.of_nat (length el)) (round_denied el)))
  end.
(* input [me, term, [[id, kind]...]] -> [won, electorate ids in order of first occurrence] *)
Definition vote_round_probe (v : val) : val :=
  let me := vn (vnth v 0) in
  let vs := map (fun x => (vn (vnth x 0), vn (vnth x 1))) (vl (vnth v 2)) in
  VL [VN (round_won me (vn (vnth v 1)) vs); VL (map (fun x => VN (fst x)) (electorate me [] vs))].
