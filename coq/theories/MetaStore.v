(* MetaStore — executable models for property C21 (saved term and vote across crashes):
     * the bincode 1.3 encoding of HardState {current_term: u64, voted_for: Option<VotedFor {u32, u64, bool}>}
       as written by `bincode::serialize` and read by `bincode::deserialize` (fixed-width little endian,
       one tag byte for Option, one byte for bool, trailing bytes accepted),
     * FileMetaStore::save_hard_state as coded (file_storage_engine.rs save_to_file): File::create
       (truncates hard_state.bin to length 0), write_all (the bytes arrive in order), flush (a no-op for
       std::fs::File) — and NO sync_all anywhere in FileMetaStore; load_from_file: an absent or
       undecodable file is "no hard state" (Ok(None)),
     * RocksDBMetaStore::save_hard_state as coded: one put_cf without sync, i.e. one WAL record in the
       page cache; MetaStore::flush = flush_wal(true).
   Two-layer storage world: what a *process crash* leaves is the state the OS holds (everything written);
   what a *power loss* leaves is one of the states the file / the key went through since the last fsync
   (un-synced truncations and writes may or may not have reached the disk; RocksDB keeps a prefix of
   its WAL).  RocksDB's own contract (a put is atomic, the WAL is replayed in order) is assumed.
   No proofs here. *)
From Coq Require Import NArith List Bool.
From DE Require Import Val.
Import ListNotations.
Open Scope N_scope.

Record vote := { v_id : N; v_term : N; v_committed : bool }.
Record hs := { h_term : N; h_vote : option vote }.

(* ---------- bincode ---------- *)
Fixpoint le_bytes (k : nat) (n : N) : list N :=
  match k with O => [] | S k' => (n mod 256) :: le_bytes k' (n / 256) end.
Fixpoint of_le (bs : list N) : N :=
  match bs with [] => 0 | b :: bs' => b + 256 * of_le bs' end.

Definition encode (h : hs) : list N :=
  le_bytes 8 (h_term h) ++
  match h_vote h with
  | None => [0]
  | Some v => [1] ++ le_bytes 4 (v_id v) ++ le_bytes 8 (v_term v) ++ [if v_committed v then 1 else 0]
  end.

Definition decode (bs : list N) : option hs :=
  match bs with
  | b0 :: b1 :: b2 :: b3 :: b4 :: b5 :: b6 :: b7 :: tag :: rest =>
      let term := of_le [b0; b1; b2; b3; b4; b5; b6; b7] in
      if tag =? 0 then Some {| h_term := term; h_vote := None |}
      else if tag =? 1 then
        match rest with
        | i0 :: i1 :: i2 :: i3 :: t0 :: t1 :: t2 :: t3 :: t4 :: t5 :: t6 :: t7 :: c :: _ =>
            let id := of_le [i0; i1; i2; i3] in
            let vt := of_le [t0; t1; t2; t3; t4; t5; t6; t7] in
            if c =? 0 then Some {| h_term := term; h_vote := Some {| v_id := id; v_term := vt; v_committed := false |} |}
            else if c =? 1 then Some {| h_term := term; h_vote := Some {| v_id := id; v_term := vt; v_committed := true |} |}
            else None
        | _ => None
        end
      else None
  | _ => None
  end.

Definition wf_hs (h : hs) : Prop :=
  h_term h < 2 ^ 64 /\ match h_vote h with Some v => v_id v < 2 ^ 32 /\ v_term v < 2 ^ 64 | None => True end.

Inductive mode := Process | Power.

(* ---------- FileMetaStore ---------- *)
(* content of hard_state.bin; None = the file does not exist *)
Definition fcontent := option (list N).
(* load_from_file + load_hard_state *)
Definition f_load (c : fcontent) : option hs := match c with None => None | Some b => decode b end.

(* the states hard_state.bin goes through inside one save_to_file: after File::create, then after each
   further byte of write_all *)
Definition f_save_trace (bs : list N) : list fcontent :=
  map (fun k => Some (firstn k bs)) (seq 0 (S (length bs))).

Record fworld := {
  fw_cache : fcontent;         (* what the OS holds = what a process crash leaves *)
  fw_hist : list fcontent      (* every state since the last fsync, oldest first, current state included;
                                  FileMetaStore never syncs, so this is the whole history *)
}.
Definition fw0 : fworld := {| fw_cache := None; fw_hist := [None] |}.
(* the process stops after [cp] steps of save_to_file (0 = before File::create; length+1 = all written) *)
Definition f_save_crash (w : fworld) (h : hs) (cp : nat) : fworld :=
  let tr := firstn cp (f_save_trace (encode h)) in
  {| fw_cache := last tr (fw_cache w); fw_hist := fw_hist w ++ tr |}.
Definition f_save (w : fworld) (h : hs) : fworld := f_save_crash w h (S (length (encode h))).
Definition f_outcomes (m : mode) (w : fworld) : list (option hs) :=
  match m with Process => [f_load (fw_cache w)] | Power => map f_load (fw_hist w) end.

(* ---------- RocksDBMetaStore ---------- *)
Record kworld := {
  kw_mem : fcontent;            (* value under HARD_STATE_KEY as seen by the process and by a restart after a process crash *)
  kw_unsynced : list fcontent   (* values since the last WAL fsync, oldest first; the first one is durable *)
}.
Definition kw0 : kworld := {| kw_mem := None; kw_unsynced := [None] |}.
(* cp = 0: before put_cf; cp >= 1: put_cf done *)
Definition k_save_crash (w : kworld) (h : hs) (cp : nat) : kworld :=
  match cp with
  | O => w
  | S _ => {| kw_mem := Some (encode h); kw_unsynced := kw_unsynced w ++ [Some (encode h)] |}
  end.
Definition k_save (w : kworld) (h : hs) : kworld := k_save_crash w h 1.
Definition k_flush (w : kworld) : kworld := {| kw_mem := kw_mem w; kw_unsynced := [kw_mem w] |}.
Definition k_outcomes (m : mode) (w : kworld) : list (option hs) :=
  match m with Process => [f_load (kw_mem w)] | Power => map f_load (kw_unsynced w) end.

(* ---------- val glue ---------- *)
Definition hs_of_val (v : val) : option hs :=
  match vl v with
  | [] => None
  | _ => Some {| h_term := vn (vnth v 0);
                 h_vote := match vl (vnth v 1) with
                           | [] => None
                           | _ => Some {| v_id := vn (vnth (vnth v 1) 0); v_term := vn (vnth (vnth v 1) 1);
                                          v_committed := vbool (vnth (vnth v 1) 2) |}
                           end |}
  end.
Definition v_hs (o : option hs) : val :=
  match o with
  | None => VL []
  | Some h => VL [VN (h_term h);
                  match h_vote h with
                  | None => VL []
                  | Some v => VL [VN (v_id v); VN (v_term v); vb (v_committed v)]
                  end]
  end.
Definition v_content (c : fcontent) : val := match c with None => VL [] | Some b => VL [vns b] end.

(* input [0, old, new] -> [[old bytes, new bytes, [loaded at crash point 0..len+1], loaded after return, loaded live],
                           [rocks: loaded before, loaded after return, loaded live]];
   input [1, bytes] -> loaded *)
Definition meta_probe (v : val) : val :=
  if vn (vnth v 0) =? 1 then v_hs (f_load (Some (vnl (vnth v 1))))
  else
    match hs_of_val (vnth v 2) with
    | None => VL []
    | Some new =>
        let w := match hs_of_val (vnth v 1) with Some o => f_save fw0 o | None => fw0 end in
        let k := match hs_of_val (vnth v 1) with Some o => k_save kw0 o | None => kw0 end in
        let n := length (encode new) in
        VL [VL [v_content (fw_cache w); v_content (Some (encode new));
                VL (map (fun cp => v_hs (f_load (fw_cache (f_save_crash w new cp)))) (seq 0 (S (S n))));
                v_hs (f_load (fw_cache (f_save w new)));
                v_hs (decode (encode new))];
            VL [v_hs (f_load (kw_mem (k_save_crash k new 0)));
                v_hs (f_load (kw_mem (k_save k new)));
                v_hs (decode (encode new))]]
    end.
