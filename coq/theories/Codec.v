(* Codec — the write path from a client call to the Command the state machine receives (property C37).
   Structured model of the conversions AS CODED:
     client call            -> WriteOperation          EmbeddedClient::{put,put_with_ttl,delete,compare_and_swap}  (embedded_client.rs)
     client call            -> proto WriteCommand      GrpcClient::* via WriteCommand::{insert,insert_with_ttl,delete,compare_and_swap} (client_ext.rs)
     proto WriteCommand     -> WriteOperation          proto_convert::write_command_to_op / to_core_write_req   (ttl 0 -> None)
     WriteOperation         -> proto WriteCommand      leader_state.rs write_op_to_proto                         (None -> ttl 0)
     proto WriteCommand     -> entry payload           replication_handler.rs client_command_to_entry_payloads  (prost encode)
     entry                  -> ApplyEntry / Command    command.rs decode_entries + TryFrom<WriteCommand>        (prost decode; ttl 0 -> None)
   The prost byte encoding itself is not modelled: a Command payload is represented by the message it carries; that
   prost decode(encode m) = m on these messages is exercised by the codec probe, which goes through the real bytes.
   No proofs in this file. *)
From Coq Require Import NArith List Bool.
From DE Require Import Val KV.
Import ListNotations.
Open Scope N_scope.

(* what a client submits (the ClientApi surface) *)
Inductive client_op :=
| CPut (k v : bytes)
| CPutTtl (k v : bytes) (ttl : N)
| CDelete (k : bytes)
| CCas (k : bytes) (expected : option bytes) (v : bytes).

(* d_engine_core::client::WriteOperation *)
Inductive wop :=
| WInsert (k v : bytes) (ttl : option N)
| WDelete (k : bytes)
| WCas (k : bytes) (expected : option bytes) (v : bytes).

(* d_engine_proto::client::write_command::Operation; WriteCommand.operation : option *)
Inductive pop :=
| PInsert (k v : bytes) (ttl : N)
| PDelete (k : bytes)
| PCas (k : bytes) (expected : option bytes) (v : bytes).
Definition wcmd := option pop.

(* d_engine_core::Command *)
Inductive acmd :=
| ANoop
| AInsert (k v : bytes) (ttl : option N)
| ADelete (k : bytes)
| ACas (k : bytes) (expected : option bytes) (v : bytes).

(* EmbeddedClient *)
Definition embedded_submit (c : client_op) : wop :=
  match c with
  | CPut k v => WInsert k v None
  | CPutTtl k v t => WInsert k v (Some t)
  | CDelete k => WDelete k
  | CCas k e v => WCas k e v
  end.

(* GrpcClient (WriteCommand constructors) *)
Definition grpc_submit (c : client_op) : wcmd :=
  match c with
  | CPut k v => Some (PInsert k v 0)
  | CPutTtl k v t => Some (PInsert k v t)
  | CDelete k => Some (PDelete k)
  | CCas k e v => Some (PCas k e v)
  end.

(* proto_convert::write_command_to_op; None = the request the gRPC handler rejects with invalid_argument *)
Definition proto_to_op (w : wcmd) : option wop :=
  match w with
  | Some (PInsert k v t) => Some (WInsert k v (if t =? 0 then None else Some t))
  | Some (PDelete k) => Some (WDelete k)
  | Some (PCas k e v) => Some (WCas k e v)
  | None => None
  end.

(* leader_state.rs write_op_to_proto *)
Definition op_to_proto (o : wop) : wcmd :=
  match o with
  | WInsert k v ttl => Some (PInsert k v (match ttl with Some t => t | None => 0 end))
  | WDelete k => Some (PDelete k)
  | WCas k e v => Some (PCas k e v)
  end.

(* entry payloads *)
Inductive payload := PLNoop | PLConfig | PLCommand (w : wcmd).
Record entry := { e_index : N; e_term : N; e_payload : option payload }.
Record apply_entry := { a_index : N; a_term : N; a_cmd : acmd }.

(* replication_handler.rs client_command_to_entry_payloads *)
Definition to_payloads (ws : list wcmd) : list payload := map PLCommand ws.

(* command.rs TryFrom<WriteCommand> for Command; None = Err *)
Definition proto_to_cmd (w : wcmd) : option acmd :=
  match w with
  | Some (PInsert k v t) => Some (AInsert k v (if t =? 0 then None else Some t))
  | Some (PDelete k) => Some (ADelete k)
  | Some (PCas k e v) => Some (ACas k e v)
  | None => None
  end.

(* command.rs decode_entries; None = Err (the whole batch is rejected) *)
Fixpoint decode_entries (es : list entry) : option (list apply_entry) :=
  match es with
  | [] => Some []
  | e :: es' =>
      match e_payload e with
      | None => None
      | Some pl =>
          let c := match pl with
                   | PLNoop => Some ANoop
                   | PLConfig => Some ANoop
                   | PLCommand w => proto_to_cmd w
                   end in
          match c, decode_entries es' with
          | Some c', Some rest => Some ({| a_index := e_index e; a_term := e_term e; a_cmd := c' |} :: rest)
          | _, _ => None
          end
      end
  end.

(* the leader assigns consecutive indexes of its term to the payloads of a batch *)
Fixpoint assign (first term : N) (pls : list payload) : list entry :=
  match pls with
  | [] => []
  | p :: rest => {| e_index := first; e_term := term; e_payload := Some p |} :: assign (first + 1) term rest
  end.

(* the two end-to-end paths for a batch of client calls *)
Definition embedded_path (first term : N) (cs : list client_op) : option (list apply_entry) :=
  decode_entries (assign first term (to_payloads (map (fun c => op_to_proto (embedded_submit c)) cs))).

Definition grpc_path (first term : N) (cs : list client_op) : option (list apply_entry) :=
  match fold_right (fun c acc => match proto_to_op (grpc_submit c), acc with
                                 | Some o, Some l => Some (o :: l) | _, _ => None end) (Some []) cs with
  | Some ops => decode_entries (assign first term (to_payloads (map op_to_proto ops)))
  | None => None
  end.

(* what must arrive: ttl under the documented convention "ttl_secs = 0 means no expiration" (client_api.proto) *)
Definition ttl_norm (t : N) : option N := if t =? 0 then None else Some t.
Definition expected_cmd (c : client_op) : acmd :=
  match c with
  | CPut k v => AInsert k v None
  | CPutTtl k v t => AInsert k v (ttl_norm t)
  | CDelete k => ADelete k
  | CCas k e v => ACas k e v
  end.

(* ---- val glue ---- *)
Definition client_op_of_val (v : val) : client_op :=
  let t := vn (vnth v 0) in
  if t =? 0 then CPut (bytes_of_val (vnth v 1)) (bytes_of_val (vnth v 2))
  else if t =? 1 then CPutTtl (bytes_of_val (vnth v 1)) (bytes_of_val (vnth v 2)) (vn (vnth v 3))
  else if t =? 2 then CDelete (bytes_of_val (vnth v 1))
  else CCas (bytes_of_val (vnth v 1)) (obytes_of_val (vnth v 2)) (bytes_of_val (vnth v 3)).

Definition val_of_acmd (c : acmd) : val :=
  match c with
  | ANoop => VL [VN 3]
  | AInsert k v ttl => VL [VN 0; val_of_bytes k; val_of_bytes v; vopt ttl]
  | ADelete k => VL [VN 1; val_of_bytes k]
  | ACas k e v => VL [VN 2; val_of_bytes k; val_of_obytes e; val_of_bytes v]
  end.

Fixpoint with_terms (i : N) (l : list apply_entry) : list val :=
  match l with
  | [] => []
  | a :: rest => VL [VN (a_index a); VN (7 + i mod 2); val_of_acmd (a_cmd a)] :: with_terms (i + 1) rest
  end.

(* input: [op..]; output: [direct, embedded, grpc] (see harness/src/p_engine.rs; the probe's direct path numbers the
   entries 100.. with terms 7,8,7,.. and starts from the WriteCommand constructors, i.e. grpc_submit) *)
Definition codec_probe (v : val) : val :=
  let cs := map client_op_of_val (vl v) in
  let direct := match decode_entries (assign 100 7 (to_payloads (map grpc_submit cs))) with
                | Some l => VL (with_terms 0 l)
                | None => VL [VL [VN 9]]
                end in
  let cmds p := match p with Some l => VL (map (fun a => val_of_acmd (a_cmd a)) l) | None => VL (map (fun _ => VL [VN 9]) cs) end in
  VL [direct; cmds (embedded_path 1 1 cs); cmds (grpc_path 1 1 cs)].
