(* Repl — executable model of d-engine-core/src/replication/replication_handler.rs as coded:
   leader-side request assembly (generate_new_entries, retrieve_to_be_synced_logs_for_peers,
   build_append_request, the snapshot routing of prepare_batch_requests) and the follower-side
   handling (check_append_entries_request_is_legal, handle_append_entries,
   if_update_commit_index_as_follower), over the buffered log model. No proofs here. *)
From Coq Require Import NArith List Bool.
From DE Require Import Val BufLog.
Import ListNotations.
Open Scope N_scope.

Record request := {
  rq_term : N; rq_prev : N; rq_pterm : N; rq_entries : list entry; rq_commit : N
}.

(* ---------------- leader ---------------- *)

(* generate_new_entries: ids from pre_allocate_id_range, current term, inserted into the local log *)
Fixpoint mk_new (start term : N) (pls : list N) : list entry :=
  match pls with
  | [] => []
  | pl :: pls' => {| e_idx := start; e_term := term; e_pl := pl |} :: mk_new (start + 1) term pls'
  end.

Definition generate_new (b : buf) (term : N) (pls : list N) : buf * list entry :=
  match pls with
  | [] => (b, [])
  | _ => let '(b1, start) := b_alloc b (N.of_nat (length pls)) in
         let es := mk_new start term pls in
         (b_insert b1 es, es)
  end.

(* retrieve_to_be_synced_logs_for_peers, for one peer *)
Definition retrieve (b : buf) (new_es : list entry) (last_before cap next : N) : list entry :=
  let legacy :=
    if next <=? last_before then
      let until := if cap <=? (last_before - next) then next + cap - 1 else last_before in
      range (ents b) next until
    else [] in
  legacy ++ new_es.

(* the contiguous run starting at [first] (build_append_request) *)
Fixpoint contig_prefix (first : N) (es : list entry) : list entry :=
  match es with
  | [] => []
  | e :: es' => if e_idx e =? first then e :: contig_prefix (first + 1) es' else []
  end.

Definition build_request (b : buf) (term commit next : N) (entries : list entry) : request :=
  let prev := next - 1 in
  let pterm := match b_entry_term b prev with Some t => t | None => 0 end in
  {| rq_term := term; rq_prev := prev; rq_pterm := pterm;
     rq_entries := contig_prefix (prev + 1) entries; rq_commit := commit |}.

(* prepare_batch_requests: returns the log after appending, per-peer requests and snapshot targets *)
Definition leader_prepare (b : buf) (cap term commit : N) (peers : list (N * N)) (pls : list N)
  : buf * list (N * request) * list N :=
  let last_before := bmax b in
  let '(b1, new_es) := generate_new b term pls in
  let min_log := bmin b1 in
  let reqs := fold_right (fun pn acc =>
                let '(p, next) := pn in
                if (1 <? min_log) && (next <? min_log) then acc
                else (p, build_request b1 term commit next (retrieve b1 new_es last_before cap next)) :: acc)
              [] peers in
  let snaps := fold_right (fun pn acc =>
                let '(p, next) := pn in
                if (1 <? min_log) && (next <? min_log) then p :: acc else acc) [] peers in
  (b1, reqs, snaps).

(* ---------------- follower ---------------- *)
Inductive resp :=
| RSuccess (term : N) (last_match : option (N * N))
| RConflict (term : N) (cterm : option N) (cidx : option N)
| RHigher (term : N).

Definition check_legal (b : buf) (my_term : N) (r : request) : resp :=
  if rq_term r <? my_term then RHigher my_term
  else if (rq_prev r =? 0) && (rq_pterm r =? 0) then RSuccess my_term (b_last_log_id b)
  else match b_entry_term b (rq_prev r) with
       | Some t =>
           if t =? rq_pterm r then RSuccess my_term (Some (rq_prev r, rq_pterm r))
           else RConflict my_term (Some t)
                  (Some (match aget (tfirst b) t with Some i => i | None => rq_prev r - 1 end))
       | None =>
           let last := match b_last_log_id b with Some (i, _) => i | None => 0 end in
           RConflict my_term None (Some (last + 1))
       end.

Definition follower_commit (my_commit last leader_commit : N) : option N :=
  if my_commit <? leader_commit then Some (N.min leader_commit last) else None.

(* handle_append_entries *)
Definition follower_handle (b : buf) (my_term my_commit : N) (r : request) : buf * resp * option N :=
  match check_legal b my_term r with
  | RSuccess _ _ =>
      let '(b', lid) :=
        match rq_entries r with
        | [] => (b, b_last_log_id b)
        | _ => b_filter_append b (rq_prev r) (rq_pterm r) (rq_entries r)
        end in
      let covered := rq_prev r + N.of_nat (length (rq_entries r)) in
      let cu := match follower_commit my_commit (N.min (bmax b') covered) (rq_commit r) with
                | Some c => if my_commit <? c then Some c else None
                | None => None end in
      (b', RSuccess my_term lid, cu)
  | other => (b, other, None)
  end.

(* ---------------- val glue for the correspondence check ---------------- *)
Definition vreq (pr : N * request) : val :=
  let '(p, r) := pr in
  VL [VN p; VN (rq_prev r); VN (rq_pterm r);
      VL (map (fun e => VL [VN (e_idx e); VN (e_term e)]) (rq_entries r)); VN (rq_commit r)].

Definition setup_log (es : list entry) (purge : N) : buf :=
  let b := match es with [] => buf0 | _ => b_append buf0 es end in
  if 0 <? purge then
    b_purge b purge (match find (fun e => e_idx e =? purge) es with Some e => e_term e | None => 1 end)
  else b.

(* input: [entries, purge, cap, term, commit, [[peer,next]..], n_new] *)
Definition leader_probe (v : val) : val :=
  let b := setup_log (map entry_of_val (vl (vnth v 0))) (vn (vnth v 1)) in
  let peers := map (fun p => (vn (vnth p 0), vn (vnth p 1))) (vl (vnth v 5)) in
  let n_new := N.to_nat (vn (vnth v 6)) in
  let pls := map (fun k => 5000 + N.of_nat k) (seq 0 n_new) in
  let '(b1, reqs, snaps) := leader_prepare b (vn (vnth v 2)) (vn (vnth v 3)) (vn (vnth v 4)) peers pls in
  VL [VL (map vreq reqs); VL (map VN snaps); VN (bmax b1)].

Definition vresp (r : resp) : val :=
  match r with
  | RSuccess t lm => VL [VN 0; VN t; vlid lm]
  | RConflict t ct ci => VL [VN 1; VN t; vopt ct; vopt ci]
  | RHigher t => VL [VN 2; VN t]
  end.

Definition req_of_val (v : val) : request :=
  {| rq_term := vn (vnth v 0); rq_prev := vn (vnth v 1); rq_pterm := vn (vnth v 2);
     rq_entries := map entry_of_val (vl (vnth v 3)); rq_commit := vn (vnth v 4) |}.

(* input: [entries, purge, my_term, my_commit, [request...], qmax, tmax]; the requests are handled in order,
   the commit index being updated as the role state would.  output per request: [response, commit update, observation] *)
Definition follower_probe (v : val) : val :=
  let b := setup_log (map entry_of_val (vl (vnth v 0))) (vn (vnth v 1)) in
  let my_term := vn (vnth v 2) in
  let qmax := vn (vnth v 5) in let tmax := vn (vnth v 6) in
  VL (snd (fold_left (fun acc rv =>
        let '(b, commit, outs) := acc in
        let '(b', rs, cu) := follower_handle b my_term commit (req_of_val rv) in
        let commit' := match cu with Some c => c | None => commit end in
        (b', commit', outs ++ [VL [vresp rs; vopt cu; observe b' qmax tmax]]))
      (vl (vnth v 4)) (b, vn (vnth v 3), []))).
