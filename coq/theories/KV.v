(* KV — key-value command semantics (property C22).
   * reference semantics  [apply : kv -> cmd -> kv * bool]  (documented meaning of put / delete / CAS)
   * the two built-in engines' [apply_chunk] AS CODED:
       - FileStateMachine::apply_chunk  (file_state_machine.rs): pass 1 evaluates the CAS outcomes of the chunk
         against  base (= pre-chunk values of the CAS-referenced keys)  overlaid by  delta (= mutations of earlier
         entries of the same chunk); pass 3 replays the chunk on the in-memory map with the pre-computed outcomes.
         (the WAL append between the passes and the (value, term) pairing do not influence get/get_multi/scan_prefix
          nor the ApplyResult list and are left out; crash behaviour of the WAL is property C15/C16)
       - RocksDBStateMachine::apply_chunk (rocksdb_state_machine.rs): one pass; writes go into a
         WriteBatchWithIndex (overwrite_key = true); a CAS reads through batch-then-db
         (get_from_batch_and_db_cf); the batch is written at the end (write_wbwi).
   * reads: get, get_multi, scan_prefix of both engines as coded (RocksDB: empty prefix short-circuits to []).
   No proofs in this file. *)
From Coq Require Import NArith List Bool.
From DE Require Import Val.
Import ListNotations.
Open Scope N_scope.

Definition bytes := list N.
Definition key := bytes.
Definition value := bytes.

Fixpoint bytes_eqb (a b : bytes) : bool :=
  match a, b with
  | [], [] => true
  | x :: a', y :: b' => N.eqb x y && bytes_eqb a' b'
  | _, _ => false
  end.

Definition obytes_eqb (a b : option bytes) : bool :=
  match a, b with
  | Some x, Some y => bytes_eqb x y
  | None, None => true
  | _, _ => false
  end.

Fixpoint is_prefix (p k : bytes) : bool :=
  match p, k with
  | [], _ => true
  | x :: p', y :: k' => N.eqb x y && is_prefix p' k'
  | _ :: _, [] => false
  end.

Inductive cmd :=
| Put (k : key) (v : value)
| Del (k : key)
| Cas (k : key) (expected : option value) (v : value)
| Noop.

(* ---- the store: association list, first binding wins ---- *)
Definition kv := list (key * value).

Fixpoint lookup (m : kv) (k : key) : option value :=
  match m with
  | [] => None
  | (k', v) :: m' => if bytes_eqb k' k then Some v else lookup m' k
  end.

Definition del (k : key) (m : kv) : kv := filter (fun p => negb (bytes_eqb (fst p) k)) m.
Definition set (k : key) (v : value) (m : kv) : kv := (k, v) :: del k m.

(* ---- reference semantics ---- *)
Definition apply (m : kv) (c : cmd) : kv * bool :=
  match c with
  | Put k v => (set k v m, true)
  | Del k => (del k m, true)
  | Cas k e v => if obytes_eqb (lookup m k) e then (set k v m, true) else (m, false)
  | Noop => (m, true)
  end.

Fixpoint apply_all (m : kv) (cs : list cmd) : kv * list bool :=
  match cs with
  | [] => (m, [])
  | c :: cs' =>
      let (m1, b) := apply m c in
      let (m2, bs) := apply_all m1 cs' in
      (m2, b :: bs)
  end.

(* reads of the reference store *)
Definition get (m : kv) (k : key) : option value := lookup m k.
Definition get_multi (m : kv) (ks : list key) : list (option value) := map (lookup m) ks.
Definition scan_prefix (m : kv) (p : bytes) : list (key * value) := filter (fun e => is_prefix p (fst e)) m.

(* ---- overlay: chunk-local mutations, newest first; None = deleted ---- *)
Definition overlay := list (key * option value).

Fixpoint olookup (d : overlay) (k : key) : option (option value) :=
  match d with
  | [] => None
  | (k', x) :: d' => if bytes_eqb k' k then Some x else olookup d' k
  end.

(* ---- FileStateMachine::apply_chunk ---- *)
Definition cas_keys (cs : list cmd) : list key :=
  flat_map (fun c => match c with Cas k _ _ => [k] | _ => [] end) cs.

Definition mem_key (k : key) (ks : list key) : bool := existsb (bytes_eqb k) ks.

(* base: "fetch only those keys" *)
Definition file_base (data : kv) (cks : list key) : kv := filter (fun p => mem_key (fst p) cks) data.

(* pass 1: outcome per entry (false for non-CAS entries, as coded) *)
Fixpoint file_pass1 (base : kv) (delta : overlay) (cs : list cmd) : list bool :=
  match cs with
  | [] => []
  | Put k v :: cs' => false :: file_pass1 base ((k, Some v) :: delta) cs'
  | Del k :: cs' => false :: file_pass1 base ((k, None) :: delta) cs'
  | Cas k e v :: cs' =>
      let current := match olookup delta k with Some x => x | None => lookup base k end in
      let ok := obytes_eqb current e in
      ok :: file_pass1 base (if ok then (k, Some v) :: delta else delta) cs'
  | Noop :: cs' => false :: file_pass1 base delta cs'
  end.

(* pass 3: in-memory update with the pre-computed outcomes *)
Fixpoint file_pass3 (data : kv) (cs : list cmd) (outs : list bool) : kv * list bool :=
  match cs, outs with
  | c :: cs', o :: outs' =>
      let '(d1, r) := match c with
                      | Noop => (data, true)
                      | Put k v => (set k v data, true)
                      | Del k => (del k data, true)
                      | Cas k _ v => (if o then set k v data else data, o)
                      end in
      let (d2, rs) := file_pass3 d1 cs' outs' in
      (d2, r :: rs)
  | _, _ => (data, [])
  end.

Definition file_apply_chunk (data : kv) (chunk : list cmd) : kv * list bool :=
  let base := file_base data (cas_keys chunk) in
  file_pass3 data chunk (file_pass1 base [] chunk).

(* ---- RocksDBStateMachine::apply_chunk ---- *)
(* batch = WriteBatchWithIndex, newest op first; (k, Some v) = put, (k, None) = delete *)
Fixpoint rocks_loop (db : kv) (batch : overlay) (cs : list cmd) : overlay * list bool :=
  match cs with
  | [] => (batch, [])
  | c :: cs' =>
      let '(b1, r) := match c with
                      | Noop => (batch, true)
                      | Put k v => ((k, Some v) :: batch, true)
                      | Del k => ((k, None) :: batch, true)
                      | Cas k e v =>
                          let current := match olookup batch k with Some x => x | None => lookup db k end in
                          let ok := obytes_eqb current e in
                          (if ok then (k, Some v) :: batch else batch, ok)
                      end in
      let (b2, rs) := rocks_loop db b1 cs' in
      (b2, r :: rs)
  end.

(* write_wbwi: the operations of the batch in insertion order (oldest first) *)
Definition rocks_write (db : kv) (batch : overlay) : kv :=
  fold_right (fun op d => match snd op with Some v => set (fst op) v d | None => del (fst op) d end) db batch.

Definition rocks_apply_chunk (db : kv) (chunk : list cmd) : kv * list bool :=
  let (batch, rs) := rocks_loop db [] chunk in
  (rocks_write db batch, rs).

(* ---- a run: the chunks one after the other ---- *)
Fixpoint run_chunks (step : kv -> list cmd -> kv * list bool) (m : kv) (chunks : list (list cmd)) : kv * list bool :=
  match chunks with
  | [] => (m, [])
  | ch :: rest =>
      let (m1, r1) := step m ch in
      let (m2, r2) := run_chunks step m1 rest in
      (m2, r1 ++ r2)
  end.

(* ---- reads as coded ---- *)
Definition file_get := get.
Definition file_get_multi := get_multi.
Definition file_scan := scan_prefix.
Definition rocks_get := get.
Definition rocks_get_multi := get_multi.
Definition rocks_scan (m : kv) (p : bytes) : list (key * value) :=
  match p with [] => [] | _ => scan_prefix m p end.

(* ---- val glue ---- *)
Definition bytes_of_val (v : val) : bytes := vnl v.
Definition obytes_of_val (v : val) : option bytes :=
  match vl v with [] => None | x :: _ => Some (bytes_of_val x) end.
Definition val_of_bytes (b : bytes) : val := vns b.
Definition val_of_obytes (o : option bytes) : val :=
  match o with None => VL [] | Some b => VL [val_of_bytes b] end.

Definition cmd_of_val (v : val) : cmd :=
  let t := vn (vnth v 0) in
  if t =? 0 then Put (bytes_of_val (vnth v 1)) (bytes_of_val (vnth v 2))
  else if t =? 1 then Del (bytes_of_val (vnth v 1))
  else if t =? 2 then Cas (bytes_of_val (vnth v 1)) (obytes_of_val (vnth v 2)) (bytes_of_val (vnth v 3))
  else Noop.

(* lexicographic order on byte strings, insertion sort by key: canonical order of scan results
   (the probe sorts the implementation's result the same way; HashMap iteration order is arbitrary) *)
Fixpoint bytes_leb (a b : bytes) : bool :=
  match a, b with
  | [], _ => true
  | _ :: _, [] => false
  | x :: a', y :: b' => if x <? y then true else if y <? x then false else bytes_leb a' b'
  end.
Fixpoint insert_sorted (e : key * value) (l : list (key * value)) : list (key * value) :=
  match l with
  | [] => [e]
  | h :: t => if bytes_leb (fst e) (fst h) then e :: l else h :: insert_sorted e t
  end.
Definition sort_kv (l : list (key * value)) : list (key * value) := fold_right insert_sorted [] l.

Definition val_of_scan (l : list (key * value)) : val :=
  VL (map (fun e => VL [val_of_bytes (fst e); val_of_bytes (snd e)]) (sort_kv l)).

Fixpoint split_chunks {A} (sizes : list N) (cs : list A) : list (list A) :=
  match sizes with
  | [] => []
  | n :: rest => firstn (N.to_nat n) cs :: split_chunks rest (skipn (N.to_nat n) cs)
  end.

Definition observe (get_ : kv -> key -> option value) (multi_ : kv -> list key -> list (option value))
           (scan_ : kv -> bytes -> list (key * value)) (st : kv * list bool) (keys : list key) (prefixes : list bytes) : val :=
  VL [VL (map vb (snd st));
      VL (map (fun k => val_of_obytes (get_ (fst st) k)) keys);
      VL (map val_of_obytes (multi_ (fst st) keys));
      VL (map (fun p => val_of_scan (scan_ (fst st) p)) prefixes)].

(* input: [cmds, [chunk sizes per chunking], keys, prefixes, fresh]
   output: per chunking [file observation, rocksdb observation] *)
Definition kv_probe (v : val) : val :=
  let cmds := map cmd_of_val (vl (vnth v 0)) in
  let keys := map bytes_of_val (vl (vnth v 2)) in
  let prefixes := map bytes_of_val (vl (vnth v 3)) in
  VL (map (fun sizes =>
             let chunks := split_chunks (vnl sizes) cmds in
             VL [observe file_get file_get_multi file_scan (run_chunks file_apply_chunk [] chunks) keys prefixes;
                 observe rocks_get rocks_get_multi rocks_scan (run_chunks rocks_apply_chunk [] chunks) keys prefixes])
          (vl (vnth v 1))).
