(* Environments for the rs2v-generated configuration validators: a struct value is a function from
   field paths to numbers; the correspondence check builds one from a table. *)
From Coq Require Import NArith List String Bool.
From DE Require Import Val.
Import ListNotations.
Open Scope N_scope.

Fixpoint lookup_tbl (t : list (list string * N)) (p : list string) : N :=
  match t with
  | [] => 0
  | (k, v) :: t' => if list_eq_dec string_dec k p then v else lookup_tbl t' p
  end.

Definition env_of (paths : list (list string)) (v : val) : list string -> N :=
  lookup_tbl (combine paths (vnl v)).
