(* ReadRoute — executable model of read-policy routing as coded:
   path 0  Raft command path: RaftRoleState::push_client_cmd (role_state.rs, non-leader roles) and
           LeaderState::push_client_cmd / determine_read_policy (leader_state.rs);
   path 1  gRPC handle_client_read (grpc_raft_service.rs) -> StandaloneReadHandle::get_batch -> ReadActor::serve_read,
           falling back to the command path;
   path 2  EmbeddedClient::get_*_with_consistency -> EmbeddedReadHandle::get_batch (direct state-machine read),
           falling back to the command path.
   No proofs here. *)
From Coq Require Import NArith List Bool.
From DE Require Import Val.
Import ListNotations.
Open Scope N_scope.

(* policies: 1 linearizable, 2 lease, 3 eventual; requested 0 = none given *)
Definition R_LIN := 1. Definition R_LEASE := 2. Definition R_EV := 3.
(* roles: 0 follower, 1 candidate, 2 learner, 3 leader *)
Definition is_leader (role : N) : bool := role =? 3.

Inductive outcome :=
| NotLeader                 (* failed_precondition "Not leader" *)
| ServedLocal (p : N)       (* answered from the local state machine under policy p, no leader involvement *)
| LeaderQueue (p : N).      (* accepted by the leader and processed under policy p *)

Definition effective (default : N) (override : bool) (req : N) : N :=
  if negb (req =? 0) && override then req else default.

(* path 0 *)
Definition command_path (role default : N) (override : bool) (req : N) : outcome :=
  if is_leader role then LeaderQueue (effective default override req)
  else if negb (req =? 0) && override then (if req =? R_EV then ServedLocal R_EV else NotLeader)
  else if default =? R_EV then ServedLocal R_EV else NotLeader.

(* the fast path of both API layers: consults only the requested policy and the lease, never the server configuration.
   lease_valid can only be true on a leader (the lease is renewed by quorum acks and revoked on step-down). *)
Definition fast_path (role default : N) (override : bool) (req : N) (lease_valid : bool) : outcome :=
  if req =? R_EV then ServedLocal R_EV
  else if (req =? R_LEASE) && lease_valid then ServedLocal R_LEASE
  else command_path role default override req.

(* path 1: gRPC. Only Eventual / LeaseRead take the fast path; none / Linearizable go to the command path. *)
Definition grpc_path := fast_path.
(* path 2: embedded client. The client API always names a policy (get_multi_with_policy maps none to Linearizable). *)
Definition embedded_path (role default : N) (override : bool) (req : N) (lease_valid : bool) : outcome :=
  fast_path role default override (if req =? 0 then R_LIN else req) lease_valid.

Definition route (path role default : N) (override : bool) (req : N) (lease_valid : bool) : outcome :=
  if path =? 0 then command_path role default override req
  else if path =? 1 then grpc_path role default override req lease_valid
  else embedded_path role default override req lease_valid.

(* ---- val glue ---- *)
Definition outcome_val (o : outcome) : val :=
  match o with NotLeader => VL [VN 0] | ServedLocal p => VL [VN 1; VN p] | LeaderQueue p => VL [VN 2; VN p] end.
(* input: [role, default, allow_override, requested] -> command path *)
Definition readroute_probe (v : val) : val :=
  outcome_val (command_path (vn (vnth v 0)) (vn (vnth v 1)) (vbool (vnth v 2)) (vn (vnth v 3))).
(* input: [path, role, default, allow_override, requested, lease_valid] *)
Definition readroute_api_probe (v : val) : val :=
  outcome_val (route (vn (vnth v 0)) (vn (vnth v 1)) (vn (vnth v 2)) (vbool (vnth v 3)) (vn (vnth v 4)) (vbool (vnth v 5))).
