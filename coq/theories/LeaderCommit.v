(* LeaderCommit — executable model of the leader's commit path in raft_role/leader_state.rs as coded:
   update_peer_index / update_next_index / update_match_index, handle_success_response,
   handle_conflict_response, calculate_new_commit_index (voters only, absent voter = 0),
   handle_append_result (commit part) and handle_log_flushed. No proofs here. *)
From Coq Require Import NArith List Bool.
From DE Require Import Val BufLog.
Import ListNotations.
Open Scope N_scope.

Record lstate := {
  l_log : buf; l_term : N; l_commit : N;
  l_voters : list N;      (* voting peers, self excluded *)
  l_learners : list N;
  l_match : amap; l_next : amap
}.

Definition mem (x : N) (l : list N) : bool := existsb (N.eqb x) l.
Definition aset (m : amap) (k v : N) : amap := aupd m k (fun _ => v).
Definition get0 (m : amap) (k : N) : N := match aget m k with Some v => v | None => 0 end.
Definition get1 (m : amap) (k : N) : N := match aget m k with Some v => v | None => 1 end.

(* update_next_index: never below match_index + 1 *)
Definition upd_next (s : lstate) (p n : N) : lstate :=
  let floor := get0 (l_match s) p + 1 in
  {| l_log := l_log s; l_term := l_term s; l_commit := l_commit s; l_voters := l_voters s;
     l_learners := l_learners s; l_match := l_match s; l_next := aset (l_next s) p (N.max n floor) |}.
(* update_match_index: only advance *)
Definition upd_match (s : lstate) (p m : N) : lstate :=
  if get0 (l_match s) p <? m then
    {| l_log := l_log s; l_term := l_term s; l_commit := l_commit s; l_voters := l_voters s;
       l_learners := l_learners s; l_match := aset (l_match s) p m; l_next := l_next s |}
  else s.

Definition init_peers (s : lstate) : lstate :=
  fold_left (fun s p => upd_match (upd_next s p (bmax (l_log s) + 1)) p 0) (l_voters s ++ l_learners s) s.

(* calculate_new_commit_index *)
Definition voter_matches (s : lstate) : list N := map (get0 (l_match s)) (l_voters s).
Definition commit_calc (s : lstate) : option N :=
  match b_majority (l_log s) (l_term s) (l_commit s) (voter_matches s) with
  | Some n => if l_commit s <? n then Some n else None
  | None => None
  end.
Definition set_commit (s : lstate) (c : N) : lstate :=
  {| l_log := l_log s; l_term := l_term s; l_commit := c; l_voters := l_voters s;
     l_learners := l_learners s; l_match := l_match s; l_next := l_next s |}.
Definition set_term (s : lstate) (t : N) : lstate :=
  {| l_log := l_log s; l_term := t; l_commit := l_commit s; l_voters := l_voters s;
     l_learners := l_learners s; l_match := l_match s; l_next := l_next s |}.
Definition set_log (s : lstate) (b : buf) : lstate :=
  {| l_log := b; l_term := l_term s; l_commit := l_commit s; l_voters := l_voters s;
     l_learners := l_learners s; l_match := l_match s; l_next := l_next s |}.

Inductive event :=
| EAckSuccess (peer rterm midx mterm : N)
| EAckConflict (peer rterm : N) (cterm cidx : option N)
| EFlushed (durable : N)
| ELocalAppend (n : N).

Definition try_commit (s : lstate) : lstate :=
  match commit_calc s with Some n => set_commit s n | None => s end.

Definition lstep (s : lstate) (e : event) : lstate :=
  match e with
  | EAckSuccess p rt mi _ =>
      if rt <? l_term s then s
      else if l_term s <? rt then set_term s rt
      else
        let s1 := upd_next s p (N.max (mi + 1) (get1 (l_next s) p)) in
        let s2 := upd_match s1 p mi in
        if mem p (l_voters s) then try_commit s2 else s2
  | EAckConflict p rt ct ci =>
      if rt <? l_term s then s
      else if l_term s <? rt then set_term s rt
      else
        let cur := get1 (l_next s) p in
        let n := match ct, ci with
                 | Some t, Some i => match aget (tlast (l_log s)) t with Some li => li + 1 | None => i end
                 | None, Some i => i
                 | _, _ => cur - 1
                 end in
        upd_next s p (N.max n 1)
  | EFlushed _ =>
      match l_voters s with
      | [] => if l_commit s <? bmax (l_log s) then set_commit s (bmax (l_log s)) else s
      | _ => try_commit s
      end
  | ELocalAppend n =>
      let start := bmax (l_log s) + 1 in
      let es := map (fun k => {| e_idx := start + N.of_nat k; e_term := l_term s; e_pl := 0 |}) (seq 0 (N.to_nat n)) in
      match es with [] => s | _ => set_log s (b_append (l_log s) es) end
  end.

(* ---- val glue ---- *)
Definition event_of_val (v : val) : event :=
  let k := vn (vnth v 0) in
  if k =? 0 then
    if vn (vnth v 3) =? 0 then EAckSuccess (vn (vnth v 1)) (vn (vnth v 2)) (vn (vnth v 4)) (vn (vnth v 5))
    else EAckConflict (vn (vnth v 1)) (vn (vnth v 2))
           (if vn (vnth v 4) =? 0 then None else Some (vn (vnth v 4)))
           (if vn (vnth v 5) =? 0 then None else Some (vn (vnth v 5)))
  else if k =? 1 then EFlushed (vn (vnth v 1))
  else ELocalAppend (vn (vnth v 1)).

Definition lobserve (s : lstate) : val :=
  let peers := l_voters s ++ l_learners s in
  VL [VN (l_commit s); VL (map (fun p => vopt (aget (l_match s) p)) peers);
      VL (map (fun p => VN (get1 (l_next s) p)) peers); VN (l_term s)].

(* input: [entries, term, voters, learners, events] *)
Definition commit_probe (v : val) : val :=
  let es := map entry_of_val (vl (vnth v 0)) in
  let b := match es with [] => buf0 | _ => b_append buf0 es end in
  let s0 := init_peers {| l_log := b; l_term := vn (vnth v 1); l_commit := 0; l_voters := vnl (vnth v 2);
                          l_learners := vnl (vnth v 3); l_match := []; l_next := [] |} in
  VL (snd (fold_left (fun acc ev => let s' := lstep (fst acc) (event_of_val ev) in (s', snd acc ++ [lobserve s']))
                     (vl (vnth v 4)) (s0, []))).
