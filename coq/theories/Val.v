(* Universal value type for the correspondence check: the implementation's inputs and outputs are
   rendered as [val] terms by the driver, the model wrappers map [val -> val], and one generic
   comparison reports the indexes of the cases that disagree. *)
From Coq Require Import NArith List Bool.
Import ListNotations.
Open Scope N_scope.

Inductive val := VN (n : N) | VL (l : list val).

Fixpoint val_eqb (a b : val) {struct a} : bool :=
  match a, b with
  | VN x, VN y => N.eqb x y
  | VL xs, VL ys =>
      (fix go (xs ys : list val) {struct xs} : bool :=
         match xs, ys with
         | [], [] => true
         | x :: xs', y :: ys' => val_eqb x y && go xs' ys'
         | _, _ => false
         end) xs ys
  | _, _ => false
  end.

Definition vn (v : val) : N := match v with VN n => n | VL _ => 0 end.
Definition vl (v : val) : list val := match v with VL l => l | VN _ => [] end.
Definition vnth (v : val) (i : nat) : val := nth i (vl v) (VN 0).
Definition vb (b : bool) : val := VN (if b then 1 else 0).
Definition vbool (v : val) : bool := negb (N.eqb (vn v) 0).
Definition vopt (o : option N) : val := match o with Some n => VL [VN n] | None => VL [] end.
Definition vns (l : list N) : val := VL (map VN l).
Definition vnl (v : val) : list N := map vn (vl v).

(* indexes (from 0) of the cases on which model and implementation disagree *)
Fixpoint mismatches_from (f : val -> val) (i : N) (cs : list (val * val)) : list N :=
  match cs with
  | [] => []
  | (inp, out) :: cs' =>
      if val_eqb (f inp) out then mismatches_from f (i + 1) cs'
      else i :: mismatches_from f (i + 1) cs'
  end.
Definition mismatches f cs := mismatches_from f 0 cs.

(* indexes of the cases on which a boolean oracle over (input, implementation output) is false *)
Fixpoint failing_from (p : val -> val -> bool) (i : N) (cs : list (val * val)) : list N :=
  match cs with
  | [] => []
  | (inp, out) :: cs' =>
      if p inp out then failing_from p (i + 1) cs' else i :: failing_from p (i + 1) cs'
  end.
Definition failing p cs := failing_from p 0 cs.
