(* Merge — executable model of Raft::merge_append_entries (raft.rs) and of the follower's
   AppendEntries workflow (role_state.rs handle_append_entries_request_workflow +
   replication_handler.rs handle_append_entries) over the buffered log. No proofs here. *)
From Coq Require Import NArith List Bool.
From DE Require Import Val BufLog Repl.
Import ListNotations.
Open Scope N_scope.

(* a queued request with the number of senders waiting for its answer *)
Record qreq := { q_req : request; q_senders : nat }.

(* merge_append_entries: fold the following requests into the first one while they continue it
   (prev = previous end), carry the same term and the merged batch stays within [max] entries *)
Fixpoint merge_into (max : nat) (first : qreq) (next_prev : N) (rest : list qreq) : qreq * list qreq :=
  match rest with
  | [] => (first, [])
  | r :: rest' =>
      if (next_prev =? rq_prev (q_req r)) && (rq_term (q_req first) =? rq_term (q_req r)) then
        if Nat.ltb max (length (rq_entries (q_req first)) + length (rq_entries (q_req r))) then (first, rest)
        else
          let f := q_req first in
          let merged := {| rq_term := rq_term f; rq_prev := rq_prev f; rq_pterm := rq_pterm f;
                           rq_entries := rq_entries f ++ rq_entries (q_req r);
                           rq_commit := N.max (rq_commit f) (rq_commit (q_req r)) |} in
          merge_into max {| q_req := merged; q_senders := q_senders first + q_senders r |}
                     (next_prev + N.of_nat (length (rq_entries (q_req r)))) rest'
      else (first, rest)
  end.

Definition merge_front (max : nat) (q : list qreq) : list qreq :=
  match q with
  | [] => []
  | first :: rest =>
      let '(m, rest') := merge_into max first (rq_prev (q_req first) + N.of_nat (length (rq_entries (q_req first)))) rest in
      m :: rest'
  end.

(* follower role state relevant to AppendEntries *)
Record fstate := { f_log : buf; f_term : N; f_commit : N }.

(* the workflow: stale-term requests are refused; otherwise the term is adopted and the request is
   handled with the state snapshot taken before *)
Definition follower_wf (s : fstate) (r : request) : fstate * resp :=
  if rq_term r <? f_term s then (s, RHigher (f_term s))
  else
    let term' := N.max (f_term s) (rq_term r) in
    let '(b', rs, cu) := follower_handle (f_log s) term' (f_commit s) r in
    ({| f_log := b'; f_term := term'; f_commit := match cu with Some c => c | None => f_commit s end |}, rs).

(* process_inbound_events on a queue of AppendEntries: merge at the front, handle, repeat.
   Every sender of a (merged) request receives the same response. *)
Fixpoint process (fuel : nat) (max : nat) (s : fstate) (q : list qreq) : fstate * list resp :=
  match fuel with
  | O => (s, [])
  | S fuel' =>
      match merge_front max q with
      | [] => (s, [])
      | m :: rest =>
          let '(s', rs) := follower_wf s (q_req m) in
          let '(s'', out) := process fuel' max s' rest in
          (s'', repeat rs (q_senders m) ++ out)
      end
  end.

Definition run_merged (max : nat) (s : fstate) (rs : list request) : fstate * list resp :=
  process (S (length rs)) max s (map (fun r => {| q_req := r; q_senders := 1 |}) rs).

Definition run_seq (s : fstate) (rs : list request) : fstate * list resp :=
  fold_left (fun acc r => let '(s', x) := follower_wf (fst acc) r in (s', snd acc ++ [x])) rs (s, []).

(* ---- val glue ---- *)
Definition vrun (x : fstate * list resp) : val :=
  VL [VL (map vresp (snd x)); VN (f_commit (fst x)); VN (f_term (fst x)); VL (map ventry (ents (f_log (fst x))))].

Definition req6_of_val (v : val) : request :=
  {| rq_term := vn (vnth v 0); rq_prev := vn (vnth v 2); rq_pterm := vn (vnth v 3);
     rq_entries := map entry_of_val (vl (vnth v 4)); rq_commit := vn (vnth v 5) |}.

(* input: [entries, my_term, max_merge, [[term, leader, prev, pterm, entries, commit]...]] *)
Definition merge_probe (v : val) : val :=
  let es := map entry_of_val (vl (vnth v 0)) in
  let b := match es with [] => buf0 | _ => b_append buf0 es end in
  let s := {| f_log := b; f_term := vn (vnth v 1); f_commit := 0 |} in
  let max := N.to_nat (vn (vnth v 2)) in
  let rs := map req6_of_val (vl (vnth v 3)) in
  let q := merge_front max (map (fun r => {| q_req := r; q_senders := 1 |}) rs) in
  VL [vrun (run_merged max s rs); vrun (run_seq s rs);
      VL (map (fun m => VL [VN (rq_prev (q_req m)); VN (N.of_nat (length (rq_entries (q_req m))));
                            VN (rq_commit (q_req m)); VN (N.of_nat (q_senders m))]) q)].
