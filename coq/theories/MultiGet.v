(* MultiGet — multi-key reads and the realignment of sparse results (property C35), AS CODED:
     StateMachine::get_multi (position contract)                           sm_get_multi
     DefaultStateMachineHandler::read_from_state_machine (found keys only)  read_from_sm      (None is unwrap_or_default-ed to [])
     proto_convert::fast_path_batch_read_response (drops None values)       fast_path
     HashMap collect() of the returned entries (a later duplicate wins)     collect
     EmbeddedReadHandle::cmd_tx_path / StandaloneReadHandle::get_batch      realign_embedded
     GrpcClient::get_multi_with_policy                                      realign_grpc      (rejects an empty key list)
   and the read paths composed of them. No proofs in this file. *)
From Coq Require Import NArith List Bool.
From DE Require Import Val KV.
Import ListNotations.
Open Scope N_scope.

Definition sm_get_multi (st : kv) (keys : list key) : list (option value) := map (lookup st) keys.

Definition read_from_sm (st : kv) (keys : list key) : list (key * value) :=
  flat_map (fun k => match lookup st k with Some v => [(k, v)] | None => [] end) keys.

Definition fast_path (keys : list key) (values : list (option value)) : list (key * value) :=
  flat_map (fun kv => match snd kv with Some v => [(fst kv, v)] | None => [] end) (combine keys values).

Definition collect (es : list (key * value)) : kv := fold_left (fun m e => set (fst e) (snd e) m) es [].

Definition realign_embedded (keys : list key) (es : list (key * value)) : list (option value) :=
  map (fun k => lookup (collect es) k) keys.

Definition realign_grpc (keys : list key) (es : list (key * value)) : list (option (key * value)) :=
  map (fun k => match lookup (collect es) k with Some v => Some (k, v) | None => None end) keys.

(* the read paths; [option] = Err *)
Definition embedded_direct (st : kv) (keys : list key) : option (list (option value)) := Some (sm_get_multi st keys).
Definition embedded_cmd_path (st : kv) (keys : list key) : option (list (option value)) :=
  Some (realign_embedded keys (read_from_sm st keys)).
Definition grpc_cmd_path (st : kv) (keys : list key) : option (list (option (key * value))) :=
  match keys with [] => None | _ => Some (realign_grpc keys (read_from_sm st keys)) end.
(* server fast path: values from the node's read handle (ReadActor: sm.get_multi), then fast_path_batch_read_response *)
Definition grpc_fast_path (st : kv) (keys : list key) : option (list (option (key * value))) :=
  match keys with [] => None | _ => Some (realign_grpc keys (fast_path keys (sm_get_multi st keys))) end.

(* ---- val glue ---- *)
Definition val_of_emb (r : option (list (option value))) : val :=
  match r with Some l => VL [VN 1; VL (map val_of_obytes l)] | None => VL [VN 0; VL []] end.
Definition val_of_grpc (r : option (list (option (key * value)))) : val :=
  match r with
  | Some l => VL [VN 1; VL (map (fun o => match o with Some (k, v) => VL [val_of_bytes k; val_of_bytes v] | None => VL [] end) l)]
  | None => VL [VN 0; VL []]
  end.

(* input: [contents [[k,v]..], keys]; contents are loaded in order, a later binding of the same key wins *)
Definition multiget_probe (v : val) : val :=
  let st := fold_left (fun m e => set (bytes_of_val (vnth e 0)) (bytes_of_val (vnth e 1)) m) (vl (vnth v 0)) [] in
  let keys := map bytes_of_val (vl (vnth v 1)) in
  VL [val_of_emb (embedded_direct st keys); val_of_emb (embedded_direct st keys);
      val_of_emb (embedded_cmd_path st keys); val_of_emb (embedded_cmd_path st keys);
      val_of_grpc (grpc_cmd_path st keys); val_of_grpc (grpc_fast_path st keys);
      val_of_grpc (grpc_fast_path st keys); val_of_grpc (grpc_cmd_path st keys)].
