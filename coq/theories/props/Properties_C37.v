(* Pinned statements of property C37. Nothing else lives here. *)
From Coq Require Import NArith List Bool.
From DE Require Import Val KV Codec proofs.C37.
Import ListNotations.
Open Scope N_scope.

(* Every batch of client calls (put, put_with_ttl, delete, compare_and_swap with arbitrary byte strings incl. empty,
   absent / present / empty expected value, every TTL) submitted through the embedded client
   (WriteOperation -> write_op_to_proto -> client_command_to_entry_payloads -> decode_entries) is decoded into exactly
   one ApplyEntry per call, in order, with consecutive indexes, carrying the same key, value, expected value and TTL
   ([expected_cmd]: TTL t <> 0 arrives as Some t; t = 0 arrives as "no expiration", the documented meaning of ttl_secs = 0). *)
Theorem C37_embedded_writes_applied_as_submitted :
  forall (first term : N) (cs : list client_op),
    embedded_path first term cs = Some (number first term (map expected_cmd cs)).
Proof. exact embedded_path_correct. Qed.
Print Assumptions C37_embedded_writes_applied_as_submitted.

(* The same through the gRPC client (WriteCommand constructors -> write_command_to_op on the server -> the leader path). *)
Theorem C37_grpc_writes_applied_as_submitted :
  forall (first term : N) (cs : list client_op),
    grpc_path first term cs = Some (number first term (map expected_cmd cs)).
Proof. exact grpc_path_correct. Qed.
Print Assumptions C37_grpc_writes_applied_as_submitted.

(* For an arbitrary native WriteOperation (incl. ttl = Some 0, which no client constructor other than put_with_ttl(0)
   produces): key, value and expected value are unchanged, ttl is unchanged up to 0 = no expiration. *)
Theorem C37_write_operation_roundtrip :
  forall (o : wop), proto_to_cmd (op_to_proto o) = Some (cmd_of_wop o).
Proof. exact wop_roundtrip. Qed.
Print Assumptions C37_write_operation_roundtrip.

Theorem C37_position_and_index_preserved :
  forall (cs : list acmd) (first term : N) (i : nat) (d : apply_entry),
    (i < length cs)%nat ->
    nth i (number first term cs) d = {| a_index := first + N.of_nat i; a_term := term; a_cmd := nth i cs ANoop |}.
Proof. exact number_nth. Qed.
Print Assumptions C37_position_and_index_preserved.

Theorem C37_nonzero_ttl_exact :
  forall (k v : bytes) (t : N), t <> 0 -> expected_cmd (CPutTtl k v t) = AInsert k v (Some t).
Proof. exact ttl_nonzero_exact. Qed.
Print Assumptions C37_nonzero_ttl_exact.

Theorem C37_zero_ttl_means_no_expiration :
  forall (k v : bytes), expected_cmd (CPutTtl k v 0) = AInsert k v None.
Proof. exact ttl_zero_is_no_expiration. Qed.
Print Assumptions C37_zero_ttl_means_no_expiration.
