(* Pinned statements of property C23. Nothing else lives here. *)
From Coq Require Import NArith List Bool.
From DE Require Import Val Ttl proofs.C23.
Import ListNotations.
Open Scope N_scope.

(* "A key written with a TTL stays readable until its TTL elapses" — both engines, every sequence of operations
   (puts, CAS, deletes of other keys, clock advances, cleanups with any sample, restarts, snapshots) that does not
   write the key itself; for the File engine additionally no restart (refuted for restarts below). *)
Theorem C23_readable_until_due :
  forall (en : engine) (ops : list top) (s : tstate) (k v e : N),
    forallb (quiet en k) ops = true ->
    mget (t_data s) k = Some v -> mget (t_lease s) k = Some e -> t_now (trun en ops s) < e ->
    mget (t_data (trun en ops s)) k = Some v /\ mget (t_lease (trun en ops s)) k = Some e.
Proof. exact readable_until_due. Qed.
Print Assumptions C23_readable_until_due.

Theorem C23_untouched_without_lease_never_removed :
  forall (en : engine) (ops : list top) (s : tstate) (k v : N),
    forallb (quiet en k) ops = true ->
    mget (t_data s) k = Some v -> mget (t_lease s) k = None ->
    mget (t_data (trun en ops s)) k = Some v /\ mget (t_lease (trun en ops s)) k = None.
Proof. exact unleased_never_removed. Qed.
Print Assumptions C23_untouched_without_lease_never_removed.

(* "... or a delete, cancels the earlier TTL so the new value is never removed by it" *)
Theorem C23_delete_then_put_cancels_ttl :
  forall (en : engine) (s : tstate) (k v : N) (ops : list top),
    forallb (quiet en k) ops = true ->
    mget (t_data (trun en ops (tstep en (tstep en s (TDel k)) (TPut k v None)))) k = Some v.
Proof. exact delete_then_put_cancels_ttl. Qed.
Print Assumptions C23_delete_then_put_cancels_ttl.

(* "... and is removed after expiry cleanup" — in every reachable state, for every sample that contains the key
   among its first 10 entries. The full statement (for EVERY sample the iteration may produce) is false:
   C23_cleanup_sampling_refuted. *)
Theorem C23_cleanup_removes_sampled_expired_partial :
  forall (en : engine) (ops : list top) (sample : list N) (k : N),
    let s := trun en ops tinit in
    lexp (t_lease s) (t_now s) k = true -> In k (firstn 10 sample) ->
    mget (t_data (tstep en s (TCleanup sample))) k = None /\ mget (t_lease (tstep en s (TCleanup sample))) k = None.
Proof. exact cleanup_removes_sampled_expired. Qed.
Print Assumptions C23_cleanup_removes_sampled_expired_partial.

Theorem C23_cleanup_removes_expired_small :
  forall (en : engine) (ops : list top) (sample : list N) (k : N),
    let s := trun en ops tinit in
    (length sample <= 10)%nat -> In k sample ->
    lexp (t_lease s) (t_now s) k = true ->
    mget (t_data (tstep en s (TCleanup sample))) k = None.
Proof. exact cleanup_removes_expired_small. Qed.
Print Assumptions C23_cleanup_removes_expired_small.

(* "TTL state survives ... snapshot install" — RocksDB *)
Theorem C23_rocks_install_restores_ttl :
  forall (s : tstate) (d l : tmap) (k : N),
    t_snap s = Some (d, l) ->
    mget (t_data (tstep ERocks s TInstall)) k = mget d k /\
    mget (t_lease (tstep ERocks s TInstall)) k = if lexp l (t_now s) k then None else mget l k.
Proof. exact rocks_install_restores_ttl. Qed.
Print Assumptions C23_rocks_install_restores_ttl.

(* ---- refuted parts of the statement ---- *)
Theorem C23_plain_put_keeps_old_ttl_refuted :
  forall en : engine,
    let ops := [TPut 1 10 (Some 2); TPut 1 20 None] in
    mget (t_data (trun en ops tinit)) 1 = Some 20 /\
    mget (t_data (trun en (ops ++ [TAdvance 3; TCleanup [1]]) tinit)) 1 = None.
Proof. exact plain_put_keeps_old_ttl. Qed.
Print Assumptions C23_plain_put_keeps_old_ttl_refuted.

Theorem C23_cas_keeps_old_ttl_refuted :
  forall en : engine,
    let ops := [TPut 1 10 (Some 2); TCas 1 (Some 10) 20] in
    mget (t_data (trun en ops tinit)) 1 = Some 20 /\
    mget (t_data (trun en (ops ++ [TAdvance 3; TCleanup [1]]) tinit)) 1 = None.
Proof. exact cas_keeps_old_ttl. Qed.
Print Assumptions C23_cas_keeps_old_ttl_refuted.

Theorem C23_restart_after_due_refuted :
  forall ops : list top,
    let s := trun ERocks [TPut 1 10 (Some 2); TAdvance 3; TRestart] tinit in
    forallb (quiet ERocks 1) ops = true ->
    mget (t_data (trun ERocks ops s)) 1 = Some 10.
Proof. exact restart_after_due_makes_key_permanent. Qed.
Print Assumptions C23_restart_after_due_refuted.

Theorem C23_file_restart_after_due_refuted :
  forall ops : list top,
    let s := trun EFile [TPut 1 10 (Some 2); TAdvance 3; TRestart] tinit in
    forallb (quiet EFile 1) ops = true ->
    mget (t_data (trun EFile ops s)) 1 = Some 10.
Proof. exact file_restart_after_due_makes_key_permanent. Qed.
Print Assumptions C23_file_restart_after_due_refuted.

Theorem C23_file_restart_resurrects_old_value_refuted :
  mget (t_data (trun EFile [TPut 1 10 None; TPut 1 20 (Some 2); TAdvance 3; TCleanup [1]] tinit)) 1 = None /\
  mget (t_data (trun EFile [TPut 1 10 None; TPut 1 20 (Some 2); TAdvance 3; TCleanup [1]; TRestart] tinit)) 1 = Some 10 /\
  mget (t_lease (trun EFile [TPut 1 10 None; TPut 1 20 (Some 2); TAdvance 3; TCleanup [1]; TRestart] tinit)) 1 = None.
Proof. exact file_restart_resurrects_old_value. Qed.
Print Assumptions C23_file_restart_resurrects_old_value_refuted.

Theorem C23_file_install_loses_ttl_refuted :
  let ops := [TPut 1 10 (Some 2); TSnapshot; TDel 1; TInstall; TAdvance 3; TCleanup [1]; TAdvance 2; TCleanup [1]] in
  mget (t_data (trun EFile ops tinit)) 1 = Some 10 /\ mget (t_lease (trun EFile ops tinit)) 1 = None /\
  mget (t_data (trun ERocks ops tinit)) 1 = None.
Proof. exact file_install_loses_ttl. Qed.
Print Assumptions C23_file_install_loses_ttl_refuted.

Theorem C23_cleanup_sampling_refuted :
  forall n : nat,
    lexp (t_lease (sampling_after n)) (t_now (sampling_after n)) 0 = true /\ mget (t_data (sampling_after n)) 0 = Some 1.
Proof. exact cleanup_sampling_miss. Qed.
Print Assumptions C23_cleanup_sampling_refuted.
