(* Pinned statements of property C09. Nothing else lives here. *)
From Coq Require Import NArith List.
From DE Require Import Val BufLog LeaderCommit proofs.C09.
Import ListNotations.
Open Scope N_scope.

Theorem C09_commit_sound :
  forall (s : lstate) (e : event),
    l_commit (lstep s e) <> l_commit s ->
    l_commit s < l_commit (lstep s e) /\
    (l_voters s <> [] ->
       (exists en, lookup (ents (l_log (lstep s e))) (l_commit (lstep s e)) = Some en /\ e_term en = l_term (lstep s e)) /\
       (length (l_voters (lstep s e)) + 1 <
          2 * length (filter (fun x => l_commit (lstep s e) <=? x)
                        (map (fun v => match aget (l_match (lstep s e)) v with Some m => m | None => 0%N end) (l_voters (lstep s e))
                         ++ [bmax (l_log (lstep s e))])))%nat).
Proof. exact commit_sound. Qed.
Print Assumptions C09_commit_sound.

Theorem C09_learner_ack_never_commits :
  forall (s : lstate) (p rt mi mt : N),
    existsb (N.eqb p) (l_voters s) = false -> l_commit (lstep s (EAckSuccess p rt mi mt)) = l_commit s.
Proof. exact learner_ack_no_commit. Qed.
Print Assumptions C09_learner_ack_never_commits.

Theorem C09_match_index_never_decreases :
  forall (s : lstate) (e : event) (p : N),
    (match aget (l_match s) p with Some m => m | None => 0 end) <=
    (match aget (l_match (lstep s e)) p with Some m => m | None => 0 end).
Proof. exact match_monotone. Qed.
Print Assumptions C09_match_index_never_decreases.
