(* Pinned statements of property C06 (agreement part). Nothing else lives here. *)
From Coq Require Import NArith List.
From DE Require Import AbstractRaft proofs.AR_election proofs.AR_logs proofs.AR_complete proofs.AR_sms.
Import ListNotations.
Open Scope N_scope.

(* state machine safety: any two nodes hold the identical entry at every index both have marked committed *)
Theorem C06_committed_agree : forall nodes s, reach nodes s -> forall n m i,
  0 < i -> i <= a_commit s n -> i <= a_commit s m ->
  nth_error (a_log s n) (N.to_nat (i - 1)) = nth_error (a_log s m) (N.to_nat (i - 1)).
Proof. exact committed_agree. Qed.
Print Assumptions C06_committed_agree.
