(* C18 — pinned statements. *)
From Coq Require Import NArith List Bool.
From DE Require Import Val BufLog LogCrash.
From DE.proofs Require Import C18.
Import ListNotations.
Open Scope N_scope.

(* The statement as written is FALSE on the faithful model (and on the real code, same inputs). *)
Theorem C18_refuted_durable_lost :
  exists ls e, forall m,
    let s := run ls st0 in
    In e (ents (mem s)) /\ e_idx e <= durable (mem s) /\ ~ In e (recover (surviving m s)).
Proof. exact durable_lost_refuted. Qed.
Print Assumptions C18_refuted_durable_lost.

Theorem C18_refuted_gap :
  exists ls, forall m, gapfreeb (recover (surviving m (run ls st0))) = false.
Proof. exact gap_refuted. Qed.
Print Assumptions C18_refuted_gap.

Theorem C18_refuted_resurrection_power_loss :
  exists ls1 ls2 e,
    In e (ents (mem (run ls1 st0))) /\
    ~ In e (ents (mem (run (ls1 ++ ls2) st0))) /\
    last ls2 LIoCmd = LFlush /\ queue (run (ls1 ++ ls2) st0) = [] /\
    In e (recover (surviving PowerLoss (run (ls1 ++ ls2) st0))).
Proof. exact resurrection_power_loss_refuted. Qed.
Print Assumptions C18_refuted_resurrection_power_loss.

(* What holds for ALL states of the model (the mechanism; see proofs/C18.v Part 2 for the unproved
   full positive statement C18_safe and its hypotheses). *)
Theorem C18_truncation_keeps_durable_partial : forall s prev pterm es d tl,
  filter_act (mem s) prev pterm es = FReplace d tl -> alive s = true -> queue s = [] ->
  let s' := io_cmd (do_filter s prev pterm es) in
  durable (mem s') = durable (mem s) /\ queue s' = [] /\
  bmax (mem s') = bmax (b_insert (b_remove_range (mem s) d U64MAX) tl).
Proof. exact truncation_keeps_durable_partial. Qed.
Print Assumptions C18_truncation_keeps_durable_partial.

Theorem C18_flush_short_circuit_partial : forall s, bmax (mem s) <= durable (mem s) -> do_flush s = s.
Proof. exact flush_short_circuit_partial. Qed.
Print Assumptions C18_flush_short_circuit_partial.

Theorem C18_io_never_writes_at_or_below_durable_partial : forall s e,
  queue s = [] ->
  (In e (wr (io_notify s)) \/ In e (wr (io_timer s)) \/ In e (wr (io_cmd (send s TFlush)))) ->
  In e (wr s) \/ (In e (ents (mem s)) /\ durable (mem s) < e_idx e).
Proof. exact io_never_writes_at_or_below_durable_partial. Qed.
Print Assumptions C18_io_never_writes_at_or_below_durable_partial.
