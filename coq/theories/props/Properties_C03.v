(* Pinned statements of property C03. Nothing else lives here.
   DE.Membership models the code as it is now: is_single_node_cluster = initial_cluster_size == 1 && voters().is_empty(). *)
From Coq Require Import NArith List.
From DE Require Import Val Membership proofs.C03 proofs.C03hist.
Import ListNotations.
Open Scope N_scope.

(* THE FULL STATEMENT, for all membership histories from any initial configuration, at any election moment *)
Theorem C03_shortcut_sound :
  forall (self : N) (init : list node) (cs : list change) (rs : list N),
    let m := run (mk self init) cs in
    won m rs = true ->
    (granted (length (voters m)) rs = 0 -> voters m = []) /\
    (voters m <> [] ->
       asked m rs = true /\ 1 <= granted (length (voters m)) rs /\
       N.of_nat (length (vset m)) < 2 * (1 + granted (length (voters m)) rs)).
Proof. exact shortcut_sound. Qed.
Print Assumptions C03_shortcut_sound.

(* the shortcut (win, no vote request sent) is taken exactly by a node that booted alone and has no other voter NOW *)
Theorem C03_shortcut_taken_iff :
  forall (self : N) (init : list node) (cs : list change) (rs : list N),
    let m := run (mk self init) cs in
    (won m rs = true /\ asked m rs = false) <-> (length init = 1%nat /\ voters m = []).
Proof. exact shortcut_taken_iff. Qed.
Print Assumptions C03_shortcut_taken_iff.

(* second sentence of the property: started as a single node, expanded later -> a real majority of the current voters *)
Theorem C03_expanded_single_node_needs_majority :
  forall (init : list node) (self : N) (cs : list change) (rs : list N),
    length init = 1%nat ->
    let m := run (mk self init) cs in
    voters m <> [] -> won m rs = true ->
    asked m rs = true /\ N.of_nat (length (vset m)) < 2 * (1 + granted (length (voters m)) rs).
Proof. exact expanded_single_node_needs_majority. Qed.
Print Assumptions C03_expanded_single_node_needs_majority.

(* residue of the fix, a liveness matter outside this property: configured with several nodes, shrunk to itself -> never wins *)
Theorem C03_residue_shrunk_cluster_never_elects :
  forall (self : N) (init : list node) (cs : list change) (rs : list N),
    length init <> 1%nat -> voters (run (mk self init) cs) = [] -> won (run (mk self init) cs) rs = false.
Proof. exact shrunk_cluster_never_elects. Qed.
Print Assumptions C03_residue_shrunk_cluster_never_elects.

(* ---- HISTORY: the variant before the fix (is_single_node_cluster = initial_cluster_size == 1) ---- *)
Theorem C03_history_v0_shortcut_taken_iff_booted_alone :
  forall (self : N) (init : list node) (cs : list change) (rs : list N),
    (won_v0 (run (mk self init) cs) rs = true /\ asked_v0 (run (mk self init) cs) rs = false) <-> length init = 1%nat.
Proof. exact v0_shortcut_taken_iff_booted_alone. Qed.
Print Assumptions C03_history_v0_shortcut_taken_iff_booted_alone.

Theorem C03_history_v0_shortcut_refuted :
  exists (self : N) (init : list node) (cs : list change) (rs : list N),
    (1 <= length init <= 5)%nat /\
    let m := run (mk self init) cs in
    won_v0 m rs = true /\ asked_v0 m rs = false /\ granted (length (voters m)) rs = 0 /\ voters m = [2; 3].
Proof. exact v0_shortcut_refuted. Qed.
Print Assumptions C03_history_v0_shortcut_refuted.

Theorem C03_history_v0_agrees_outside_known_class :
  forall (self : N) (init : list node) (cs : list change) (rs : list N),
    let m := run (mk self init) cs in
    ~ (length init = 1%nat /\ voters m <> []) -> elect_v0 m rs = elect m rs.
Proof. exact v0_agrees_outside_known_class. Qed.
Print Assumptions C03_history_v0_agrees_outside_known_class.
