(* Pinned statements of property C27. Nothing else lives here. *)
From Coq Require Import NArith List.
From DE Require Import Val BufLog LeaderCommit Membership proofs.C09 proofs.C27.
Import ListNotations.
Open Scope N_scope.

Theorem C27_learner_never_grants :
  forall (s : lrn) (es : list lev), Forall (fun o => lrn_granted o = 0) (lrn_outs s es).
Proof. exact learner_never_grants. Qed.
Print Assumptions C27_learner_never_grants.

Theorem C27_learner_never_campaigns :
  forall (s : lrn), lrn_step s LTick = (s, [1; 0; 0; 0]) /\ lrn_step s LCandidate = (s, [2; 0; 0]).
Proof. exact learner_never_campaigns. Qed.
Print Assumptions C27_learner_never_campaigns.

(* commit (and lease: same voter list, same majority function) quorum: an acknowledgement of a non-voter never commits *)
Theorem C27_learner_ack_never_commits :
  forall (s : lstate) (p rt mi mt : N),
    existsb (N.eqb p) (l_voters s) = false -> l_commit (lstep s (EAckSuccess p rt mi mt)) = l_commit s.
Proof. exact learner_ack_no_commit. Qed.
Print Assumptions C27_learner_ack_never_commits.

Theorem C27_commit_voters_exclude_learners :
  forall (m : mstate) (l : lstate) (y : N), In y (l_voters (refresh m l)) -> role_of m y <> Some R_LEARNER /\ role_of m y <> None.
Proof. exact commit_voters_exclude_learners. Qed.
Print Assumptions C27_commit_voters_exclude_learners.

Theorem C27_voter_only_by_promotion :
  forall (m : mstate) (c : change) (y r : N),
    role_of (app m c) y = Some r -> r <> R_LEARNER ->
    (exists r0, role_of m y = Some r0 /\ r0 <> R_LEARNER) \/ promotes c y.
Proof. exact voter_only_by_promotion. Qed.
Print Assumptions C27_voter_only_by_promotion.

Theorem C27_joined_node_is_learner :
  forall (m : mstate) (id st : N), contains m id = false -> role_of (app m (CAdd id st)) id = Some R_LEARNER.
Proof. exact joined_node_is_learner. Qed.
Print Assumptions C27_joined_node_is_learner.

Theorem C27_join_answered_only_after_commit :
  forall (s : jstate) (e : jev) (j : N * N),
    In j (j_joins (jstep s e)) -> snd j = 1 ->
    In j (j_joins s) \/ (fst j <> 0 /\ fst j <= l_commit (j_l (jstep s e))).
Proof. exact join_answered_only_after_commit. Qed.
Print Assumptions C27_join_answered_only_after_commit.

Theorem C27_join_existing_rejected :
  forall (s : jstate) (id role st : N), contains (j_m s) id = true ->
    let s' := jstep s (JJoin id role st) in
    j_joins s' = j_joins s ++ [(0, 2)] /\ j_l s' = j_l s /\ j_m s' = j_m s.
Proof. exact join_existing_rejected. Qed.
Print Assumptions C27_join_existing_rejected.
