(* Pinned statements of property C04. Nothing else lives here. *)
From Coq Require Import NArith List.
From DE Require Import AbstractRaft proofs.AR_election proofs.AR_logs.
Import ListNotations.
Open Scope N_scope.

(* in every reachable state of the abstract Raft system: two logs holding an entry of the same index
   and term are identical up to and including that index (hence same payload there, same earlier entries) *)
Theorem C04_log_matching : forall nodes s, reach nodes s -> forall n m i,
  has_index (a_log s n) i = true -> has_index (a_log s m) i = true ->
  term_at (a_log s n) i = term_at (a_log s m) i -> prefix (a_log s n) i = prefix (a_log s m) i.
Proof. exact log_matching. Qed.
Print Assumptions C04_log_matching.

(* a leader's log is the leader log of its term (append-only ghost) *)
Theorem C04_leader_log_is_term_log : forall nodes s, reach nodes s ->
  forall n, In (n, a_cur s n) (g_leaders s) -> a_log s n = g_llog s (a_cur s n).
Proof. exact leader_log_is_llog. Qed.
Print Assumptions C04_leader_log_is_term_log.
