(* Pinned statements of property C06 (state machine safety) on the commit -> apply pipeline model DE.Apply.
   [run false] is the pipeline as coded, [run true] the pipeline with the suggested repair (the commit handler
   remembers the last index it has already sent to the worker).  Nothing else lives here.

   Full statement (NOT provable for the code as it is, see the two _refuted theorems):
     forall lg ls, let s := run false lg ls in
       stream s = firstn (length (stream s)) (indexed lg) /\ la s = N.of_nat (length (stream s)) /\
       kvstate s = kv_of (firstn (N.to_nat (la s)) (indexed lg)).
   Proved: the same statement for every schedule of the repaired pipeline, and for the pipeline as coded under the
   side condition [serial] (the commit handler never runs while chunks are queued) -> _partial. *)
From Coq Require Import NArith List.
From DE Require Import Val Apply proofs.C06.
Import ListNotations.
Open Scope N_scope.

(* what "the stream is a prefix of the indexed log" means: position k holds index k+1 and is the log's entry *)
Theorem C06_prefix_positions :
  forall (lg : log) (n k : nat) (e : entry),
    nth_error (firstn n (indexed lg)) k = Some e -> e_idx e = N.of_nat k + 1 /\ nth_error (indexed lg) k = Some e.
Proof. exact prefix_positions. Qed.
Print Assumptions C06_prefix_positions.

(* repaired pipeline, every schedule of commit rounds / worker steps / crash-restarts: the inputs of apply_chunk,
   concatenated, are exactly the log prefix 1..last_applied (in order, no gap, nothing twice, the log's own entries),
   and the key-value state is the fold of that prefix over the empty store *)
Theorem C06_repaired_exactly_once :
  forall (lg : log) (ls : list label),
    stream (run true lg ls) = firstn (length (stream (run true lg ls))) (indexed lg) /\
    la (run true lg ls) = N.of_nat (length (stream (run true lg ls))) /\
    kvstate (run true lg ls) = kv_of (firstn (N.to_nat (la (run true lg ls))) (indexed lg)).
Proof. exact fixed_exactly_once. Qed.
Print Assumptions C06_repaired_exactly_once.

(* the pipeline as coded, restricted to executions in which a commit round only starts when the worker has
   consumed everything sent before *)
Theorem C06_coded_serial_exactly_once_partial :
  forall (lg : log) (s : st), serial lg s ->
    stream s = firstn (length (stream s)) (indexed lg) /\
    la s = N.of_nat (length (stream s)) /\
    kvstate s = kv_of (firstn (N.to_nat (la s)) (indexed lg)).
Proof. exact serial_exactly_once. Qed.
Print Assumptions C06_coded_serial_exactly_once_partial.

(* the pipeline as coded, every schedule: whatever reaches the state machine at index i is the log's entry at i
   (so two nodes with the same committed log never apply different commands at one index) *)
Theorem C06_coded_applies_log_entries :
  forall (lg : log) (ls : list label) (e : entry),
    In e (stream (run false lg ls)) -> In e (indexed lg).
Proof. exact coded_faithful. Qed.
Print Assumptions C06_coded_applies_log_entries.

Theorem C06_log_entry_unique_per_index :
  forall (lg : log) (e1 e2 : entry), In e1 (indexed lg) -> In e2 (indexed lg) -> e_idx e1 = e_idx e2 -> e1 = e2.
Proof. exact indexed_functional. Qed.
Print Assumptions C06_log_entry_unique_per_index.

(* the pipeline as coded: two commit notifications handled before the first chunk is applied *)
Theorem C06_coded_double_apply_refuted :
  map e_idx (stream (run false w_log1 [LCommit [5]; LCommit [7]; LApply; LApply])) = [1; 2; 3; 4; 5; 1; 2; 3; 4; 5; 6; 7].
Proof. exact coded_double_apply_refuted. Qed.
Print Assumptions C06_coded_double_apply_refuted.

Theorem C06_coded_state_diverges_refuted :
  forall n : nat,
    kvstate (run false w_log2 [LCommit [2]; LCommit [3]; LApply; LApply]) <> kv_of (firstn n (indexed w_log2)).
Proof. exact coded_state_diverges_refuted. Qed.
Print Assumptions C06_coded_state_diverges_refuted.
