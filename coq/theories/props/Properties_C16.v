(* Pinned statements of property C16. Nothing else lives here.
   C16 as stated ("install + replay of the entries after the boundary gives exactly the state of a full apply; the
   recorded boundary always matches the content") is FALSE on the faithful model: the *_refuted theorems give the
   witnesses (replayed on both real engines by the snapreplay probe). The *_partial theorems hold for all command
   sequences, snapshot points p, retention settings r and numbers c of concurrently applied entries. *)
From Coq Require Import NArith List Bool.
From DE Require Import Val SMCrash SnapReplay proofs.C15 proofs.C16.
Import ListNotations.
Open Scope N_scope.

Theorem C16_replay_cas_free_overlap_partial :
  forall (cmds : list cmd) (p : nat) (r : N) (c : nat),
    cas_free (skipn (N.to_nat (s_label (create_snapshot cmds p r c))) (firstn (applied_at_capture cmds p c) cmds)) = true ->
    forall k, install_and_replay cmds p r c k = apply_all cmds kv0 k.
Proof. exact replay_without_cas_overlap. Qed.
Print Assumptions C16_replay_cas_free_overlap_partial.

Theorem C16_replay_single_overlap_partial :
  forall (cmds : list cmd) (p : nat) (r : N) (c : nat),
    (length (skipn (N.to_nat (s_label (create_snapshot cmds p r c))) (firstn (applied_at_capture cmds p c) cmds)) <= 1)%nat ->
    forall k, install_and_replay cmds p r c k = apply_all cmds kv0 k.
Proof. exact replay_single_overlap. Qed.
Print Assumptions C16_replay_single_overlap_partial.

Theorem C16_replay_default_retention_partial :
  forall (cmds : list cmd) (p : nat) (k : N), install_and_replay cmds p 1 0 k = apply_all cmds kv0 k.
Proof. exact replay_default_retention. Qed.
Print Assumptions C16_replay_default_retention_partial.

Theorem C16_boundary_never_ahead_partial :
  forall (cmds : list cmd) (p : nat) (r : N) (c : nat),
    let s := create_snapshot cmds p r c in
    (N.to_nat (s_label s) <= applied_at_capture cmds p c)%nat /\
    forall k, s_content s k = apply_all (firstn (applied_at_capture cmds p c) cmds) kv0 k.
Proof. exact boundary_never_ahead. Qed.
Print Assumptions C16_boundary_never_ahead_partial.

Theorem C16_exact_without_retention_partial :
  forall (cmds : list cmd) (p : nat),
    let s := create_snapshot cmds p 0 0 in
    (forall k, s_content s k = apply_all (firstn (N.to_nat (s_label s)) cmds) kv0 k) /\
    (forall k, install_and_replay cmds p 0 0 k = apply_all cmds kv0 k).
Proof. exact exact_without_retention. Qed.
Print Assumptions C16_exact_without_retention_partial.

Theorem C16_boundary_matches_content_refuted :
  exists (cmds : list cmd) (p : nat) (r : N),
    1 <= r /\
    let s := create_snapshot cmds p r 0 in
    exists k, s_content s k <> apply_all (firstn (N.to_nat (s_label s)) cmds) kv0 k.
Proof. exact boundary_matches_content_refuted. Qed.
Print Assumptions C16_boundary_matches_content_refuted.

Theorem C16_replay_refuted_retention :
  exists (cmds : list cmd) (p : nat) (r : N),
    1 <= r /\ exists k, install_and_replay cmds p r 0 k <> apply_all cmds kv0 k.
Proof. exact replay_refuted_retention. Qed.
Print Assumptions C16_replay_refuted_retention.

Theorem C16_replay_refuted_concurrent_apply :
  exists (cmds : list cmd) (p : nat) (c : nat),
    exists k, install_and_replay cmds p 1 c k <> apply_all cmds kv0 k.
Proof. exact replay_refuted_concurrent_apply. Qed.
Print Assumptions C16_replay_refuted_concurrent_apply.
