(* Pinned statements of property C32: the deterministic progress core of replication, and recoverability of the
   abstract system (no reachable state is a dead end). Liveness under real timers is not a theorem of this
   development. Nothing else lives here. *)
From Coq Require Import NArith List.
From DE Require Import Val BufLog PLog Repl proofs.C19 proofs.C08 proofs.C07 proofs.C32.
From DE Require AbstractRaft proofs.AR_live.
Import ListNotations.
Open Scope N_scope.

(* under fair delivery every replication round strictly advances a lagging follower, and after
   ceil(lag / cap) rounds it holds the leader's whole log *)
Theorem C32_catchup_rounds_partial :
  forall b term commit cap F a0,
    Inv b -> p_wf (abs b) -> pg_idx b = 0 -> 1 <= cap ->
    p_wf F -> pb_idx F = 0 -> p_last_idx F = a0 -> a0 <= bmax b -> agree_upto F (abs b) a0 ->
    forall k, bmax b - a0 <= N.of_nat k * cap -> pents (iterate b term commit cap k F) = pents (abs b).
Proof.
  intros b term commit cap F a0 HI Hw Hp Hc HwF HbF Hl Ha Hag.
  exact (proj2 (catchup_rounds b term commit cap F a0 HI Hw Hp Hc HwF HbF Hl Ha Hag)).
Qed.
Print Assumptions C32_catchup_rounds_partial.

(* no reachable state of the abstract system is a dead end: whatever faults produced it (loss, duplication, delay,
   re-ordering, competing elections, stale leaders), there is a finite continuation after which one node leads a
   term above every earlier one, every node is in that term with the leader's log, and all of it is committed on
   every node *)
Theorem C32_recoverable :
  forall nodes, nodes <> [] -> NoDup nodes -> forall s, AbstractRaft.reach nodes s ->
  exists s' n, AR_live.star nodes s s' /\ AR_live.healed nodes s' n /\
               (forall m, In m nodes -> AbstractRaft.a_cur s m < AbstractRaft.a_cur s' n).
Proof. exact AR_live.recoverable. Qed.
Print Assumptions C32_recoverable.
