(* Pinned statements of property C32 (deterministic progress core; the liveness statement itself is not a
   theorem of this development). Nothing else lives here. *)
From Coq Require Import NArith List.
From DE Require Import Val BufLog PLog Repl proofs.C19 proofs.C08 proofs.C07 proofs.C32.
Import ListNotations.
Open Scope N_scope.

(* under fair delivery every replication round strictly advances a lagging follower, and after
   ceil(lag / cap) rounds it holds the leader's whole log *)
Theorem C32_catchup_rounds_partial :
  forall b term commit cap F a0,
    Inv b -> p_wf (abs b) -> pg_idx b = 0 -> 1 <= cap ->
    p_wf F -> pb_idx F = 0 -> p_last_idx F = a0 -> a0 <= bmax b -> agree_upto F (abs b) a0 ->
    forall k, bmax b - a0 <= N.of_nat k * cap -> pents (iterate b term commit cap k F) = pents (abs b).
Proof.
  intros b term commit cap F a0 HI Hw Hp Hc HwF HbF Hl Ha Hag.
  exact (proj2 (catchup_rounds b term commit cap F a0 HI Hw Hp Hc HwF HbF Hl Ha Hag)).
Qed.
Print Assumptions C32_catchup_rounds_partial.
