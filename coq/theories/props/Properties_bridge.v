(* Pinned statements of the bridge between the node-level models (each tied to the code by its probe) and the guards
   of DE.AbstractRaft, on which election safety, log matching, leader completeness and state machine safety are proved.
   Used by the cluster-level checks C01, C04, C05. Nothing else lives here. *)
From Coq Require Import NArith List.
From DE Require Import Val Election BufLog PLog AbstractRaft proofs.C02 proofs.C07 proofs.AR_bridge.
Import ListNotations.
Open Scope N_scope.

(* a vote request handled by the Election model in any role is either a grant that meets the guard and has the
   effect of SVoteGrant, or a refusal that is SVoteDeny or a stutter step *)
Theorem Bridge_vote_request_meets_abstract_guard : forall s cand t li lt s' r,
  wf_node s -> en_id s <> 0 -> estep s (EVoteReq cand t li lt) = (s', r) ->
  (r = 1 /\ grant_guard s s' cand t (li, lt)) \/ (r = 0 /\ deny_effect s s' t).
Proof. exact vote_request_meets_abstract_guard. Qed.
Print Assumptions Bridge_vote_request_meets_abstract_guard.

(* the follower rule of the plain log (which the buffered log refines, C19) on a purge-free log is merge_from *)
Theorem Bridge_follower_rule_is_merge_from : forall p prev pterm es,
  pb_idx p = 0 -> contig 1 (pents p) -> contig (prev + 1) es -> p_prev_matches p prev pterm = true ->
  map fg (pents (fst (p_filter_append p prev pterm es))) =
  merge_from (map fg (pents p)) (N.to_nat prev) (map fg es).
Proof. exact follower_rule_is_merge_from. Qed.
Print Assumptions Bridge_follower_rule_is_merge_from.

(* its acceptance test implies the guard of SAppendAccept *)
Theorem Bridge_prev_matches_meets_abstract_guard : forall p prev pterm,
  pb_idx p = 0 -> contig 1 (pents p) -> p_prev_matches p prev pterm = true ->
  prev <= N.of_nat (length (pents p)) /\ term_at (map fg (pents p)) prev = pterm.
Proof. exact prev_matches_meets_abstract_guard. Qed.
Print Assumptions Bridge_prev_matches_meets_abstract_guard.

(* the count form of the leader's commit rule (C09_commit_sound) yields the majority SAdvanceCommit asks for *)
Theorem Bridge_commit_count_gives_majority : forall (self : N) (voters : list N) (m : N -> N) (self_last c : N),
  NoDup voters -> ~ In self voters ->
  (length voters + 1 < 2 * length (filter (fun x => c <=? x) (map m voters ++ [self_last])))%nat ->
  exists vs, majority (self :: voters) vs /\ forall v, In v vs -> v = self \/ (In v voters /\ c <= m v).
Proof. exact commit_count_gives_majority. Qed.
Print Assumptions Bridge_commit_count_gives_majority.

(* what a leader builds (C07.built_from; the leader side of C08) is a slice of its log with the log's term at prev:
   the premises of SAppendAccept *)
Theorem Bridge_leader_request_is_slice : forall L prev pterm es,
  pb_idx L = 0 -> contig 1 (pents L) -> built_from L prev pterm es ->
  map fg es = slice (map fg (pents L)) prev (N.of_nat (length es)) /\
  prev + N.of_nat (length es) <= N.of_nat (length (pents L)) /\
  term_at (map fg (pents L)) prev = pterm.
Proof. exact leader_request_is_slice. Qed.
Print Assumptions Bridge_leader_request_is_slice.
