(* Pinned statements of property C07. Nothing else lives here. *)
From Coq Require Import NArith List.
From DE Require Import Val BufLog PLog Repl proofs.C07.
Import ListNotations.
Open Scope N_scope.

(* After accepting a request that a leader with log L built, the follower's log is identical to L at
   every index the request covers (and below), whatever stale tail it had. *)
Theorem C07_follower_agrees_upto_covered :
  forall F L prev pterm es,
    p_wf F -> p_wf L -> built_from L prev pterm es -> agree_upto F L prev -> same_term_same_entry F L ->
    p_prev_matches F prev pterm = true -> (prev = 0 -> pb_idx F = 0) ->
    agree_upto (fst (p_filter_append F prev pterm es)) L (prev + N.of_nat (length es)).
Proof. exact follower_agrees_upto_covered. Qed.
Print Assumptions C07_follower_agrees_upto_covered.

(* Hence every index at or below the commit index the follower computes
   (min(leader_commit, min(own last index, prev + |entries|)), as handle_append_entries does)
   holds the leader's identical entry. *)
Theorem C07_follower_commit_matches :
  forall F L prev pterm es leader_commit my_commit c,
    p_wf F -> p_wf L -> built_from L prev pterm es -> agree_upto F L prev -> same_term_same_entry F L ->
    p_prev_matches F prev pterm = true -> (prev = 0 -> pb_idx F = 0) ->
    follower_commit my_commit
      (N.min (p_last_entry_id (fst (p_filter_append F prev pterm es))) (prev + N.of_nat (length es))) leader_commit = Some c ->
    forall i, i <= c -> pb_idx (fst (p_filter_append F prev pterm es)) < i -> pb_idx L < i ->
      p_entry (fst (p_filter_append F prev pterm es)) i = p_entry L i.
Proof. exact follower_commit_matches. Qed.
Print Assumptions C07_follower_commit_matches.

(* The rule of the unchanged tree (bound = the follower's own last index) is refuted by a witness. *)
Theorem C07_old_rule_refuted : exists F L prev pterm es leader_commit,
    p_wf F /\ p_wf L /\ built_from L prev pterm es /\ agree_upto F L prev /\ same_term_same_entry F L /\ p_prev_matches F prev pterm = true /\
    let F' := fst (p_filter_append F prev pterm es) in
    exists c i, follower_commit 0 (p_last_entry_id F') leader_commit = Some c /\ i <= c /\ p_entry F' i <> p_entry L i /\ p_entry F' i <> None.
Proof. exact old_rule_unsound. Qed.
Print Assumptions C07_old_rule_refuted.

(* cluster level: in the abstract Raft system a follower's committed prefix is a prefix of the log of
   the leader of its current term *)
From DE Require Import AbstractRaft proofs.AR_election proofs.AR_logs proofs.AR_complete proofs.AR_sms.
Theorem C07_follower_commit_matches_leader : forall nodes s, reach nodes s -> forall l t f,
  In (l, t) (g_leaders s) -> a_cur s f = t ->
  forall i, i <= a_commit s f -> prefix (a_log s f) i = prefix (g_llog s t) i.
Proof. exact follower_commit_matches_leader. Qed.
Print Assumptions C07_follower_commit_matches_leader.
