(* Pinned statements of property C10 (corollary layer). Nothing else lives here.
   An acknowledged write is an entry its leader committed (C29: success only after commit + apply);
   in the abstract Raft system such an entry is held by every later leader (C05) and is the entry every
   node applies at that index (C06); a linearizable read is served at a read index >= the commit index at
   its arrival and only once applied (C11). *)
From Coq Require Import NArith List.
From DE Require Import AbstractRaft proofs.AR_election proofs.AR_logs proofs.AR_complete proofs.AR_sms.
Import ListNotations.
Open Scope N_scope.

Theorem C10_committed_write_in_every_later_leader : forall nodes s, reach nodes s ->
  forall t t' l', t < t' -> In (l', t') (g_leaders s) ->
  forall i, i <= g_lcommit s t -> i <= N.of_nat (length (g_llog s t)) ->
  prefix (g_llog s t') i = prefix (g_llog s t) i.
Proof. exact leader_completeness. Qed.
Print Assumptions C10_committed_write_in_every_later_leader.

Theorem C10_committed_write_identical_wherever_applied : forall nodes s, reach nodes s -> forall n m i,
  0 < i -> i <= a_commit s n -> i <= a_commit s m ->
  nth_error (a_log s n) (N.to_nat (i - 1)) = nth_error (a_log s m) (N.to_nat (i - 1)).
Proof. exact committed_agree. Qed.
Print Assumptions C10_committed_write_identical_wherever_applied.
