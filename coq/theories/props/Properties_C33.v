(* Pinned statements of property C33 (log compaction never discards needed entries) on the model DE.Purge.
   Nothing else lives here.
   Full statement of the restart clause (NOT provable for an engine that keeps neither the purge boundary id nor
   the snapshot metadata over a restart — the File engine — see C33_restart_without_persistence_refuted):
     forall ts p persist meta next, 0 < p < length ts -> 1 <= next <= length ts + 1 ->
       served ts meta (route_of (view ts p persist) next). *)
From Coq Require Import NArith List.
From DE Require Import Val Purge proofs.C33.
Import ListNotations.
Open Scope N_scope.

(* every execute_purge call of a leader or a follower, over every sequence of commit moves, appends and snapshot
   results: the cutoff is the last_included index of a snapshot this node created, and it is below the commit
   index at that moment — or the call removes nothing (the leader re-executes its scheduled purge) *)
Theorem C33_purge_only_committed_and_snapshotted :
  forall (leader : bool) (n0 : N) (es : list pevent),
    Forall (fun x => In (pg_p x) (r_snaps (prun leader n0 es)) /\ (pg_p x < pg_commit x \/ pg_noop x = true))
           (r_purges (prun leader n0 es)).
Proof. exact purge_safe. Qed.
Print Assumptions C33_purge_only_committed_and_snapshotted.

Theorem C33_noop_purge_keeps_entries :
  forall (g : plog) (p : N), stableb g p = true ->
    pl (purge_log g p) = pl g /\ pb (purge_log g p) = pb g /\ (pl g <> 0 -> pf (purge_log g p) = pf g).
Proof. exact noop_purge_keeps_entries. Qed.
Print Assumptions C33_noop_purge_keeps_entries.

(* after a purge up to p (and after a restart on an engine that keeps the boundary id and the snapshot metadata):
   every peer is served — next_index <= p by snapshot transfer, next_index > p by an AppendEntries request whose
   prev term is the true term of prev_log_index (taken from the stored boundary id when next_index = p + 1) *)
Theorem C33_routing_across_boundary :
  forall (ts : list N) (p : N), 0 < p -> p < N.of_nat (length ts) ->
  forall next : N, 1 <= next -> next <= N.of_nat (length ts) + 1 ->
    served ts true (route_of (view ts p true) next).
Proof. exact routing_across_boundary. Qed.
Print Assumptions C33_routing_across_boundary.

(* an engine that keeps neither: nobody at or below p is served, the request for p + 1 carries prev term 0,
   only peers above p + 1 are still served by log *)
Theorem C33_restart_without_persistence :
  forall (ts : list N) (p : N), 0 < p -> p < N.of_nat (length ts) ->
    (forall next, next <= p -> ~ served ts false (route_of (view ts p false) next))
    /\ (exists es, route_of (view ts p false) (p + 1) = RApp p 0 es)
    /\ (forall next, p + 1 < next -> next <= N.of_nat (length ts) + 1 -> served ts false (route_of (view ts p false) next)).
Proof. exact restart_without_persistence. Qed.
Print Assumptions C33_restart_without_persistence.

Theorem C33_restart_without_persistence_refuted :
  exists (ts : list N) (p next : N), 0 < p /\ p < N.of_nat (length ts) /\ 1 <= next /\ next <= N.of_nat (length ts) + 1 /\
    route_of (view ts p false) next = RApp 4 0 [5; 6] /\ term_at ts 4 = Some 2 /\
    ~ served ts false (route_of (view ts p false) next) /\ ~ served ts false (route_of (view ts p false) 1).
Proof. exact restart_without_persistence_refuted. Qed.
Print Assumptions C33_restart_without_persistence_refuted.
