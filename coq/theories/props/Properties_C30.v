(* Pinned statements of property C30. Nothing else lives here. *)
From Coq Require Import NArith List.
From DE Require Import Val LeaderQ proofs.LeaderQLemmas proofs.C30.
Import ListNotations.
Open Scope N_scope.

Theorem C30_step_down_resolves_all :
  forall (s : lq) (id : N), q_leader s = true -> In id (ids_out s) ->
    In id (ids_resp (step s OStepDown)) /\ ids_out (step s OStepDown) = [].
Proof. exact step_down_resolves_all. Qed.
Print Assumptions C30_step_down_resolves_all.

Theorem C30_fatal_resolves_all :
  forall (s : lq) (id : N), q_leader s = true -> In id (ids_out s) ->
    In id (ids_resp (step s OFatal)) /\ ids_out (step s OFatal) = [].
Proof. exact fatal_resolves_all. Qed.
Print Assumptions C30_fatal_resolves_all.

Theorem C30_step_down_drops_apply_waiters_and_joins :
  forall (s : lq) (id : N), q_leader s = true -> In id (map snd (q_pwa s) ++ pca_ids (q_pca s)) ->
    In (id, K_DROPPED, 0) (q_resp (step s OStepDown)).
Proof. exact step_down_drops_apply_waiters_and_joins. Qed.
Print Assumptions C30_step_down_drops_apply_waiters_and_joins.

Theorem C30_fatal_drops_unflushed_uncommitted_lease_and_joins :
  forall (s : lq) (id : N), q_leader s = true ->
    In id (q_pbuf s ++ flat_map b_ids (q_pcw s) ++ map fst (q_please s) ++ pca_ids (q_pca s)) ->
    In (id, K_DROPPED, 0) (q_resp (step s OFatal)).
Proof. exact fatal_drops_unflushed_uncommitted_lease_and_joins. Qed.
Print Assumptions C30_fatal_drops_unflushed_uncommitted_lease_and_joins.

Theorem C30_sweep_answers_expired :
  forall (s : lq) (id : N),
    (exists b, In b (q_pcw s) /\ b_dl b <= q_now s /\ In id (b_ids b)) \/
    (exists e, In e (q_preads s) /\ fst (snd e) <= q_now s /\ In id (snd (snd e))) \/
    (exists e, In e (q_please s) /\ snd e <= q_now s /\ fst e = id) \/
    (exists e, In e (q_pca s) /\ fst (snd e) <= q_now s /\ snd (snd e) = id) ->
    In (id, K_DEADLINE, 0) (q_resp (sweep s)).
Proof. exact sweep_answers_expired. Qed.
Print Assumptions C30_sweep_answers_expired.

Theorem C30_tick_ends_with_sweep :
  forall (s : lq) (dt : N), q_leader s = true -> exists s', tick s dt = sweep s' /\ q_now s' = q_now s + dt.
Proof. exact tick_ends_with_sweep. Qed.
Print Assumptions C30_tick_ends_with_sweep.

Theorem C30_apply_waiters_have_no_deadline :
  forall (dts : list N) (s : lq), q_pwa (run s (map OTick dts)) = q_pwa s.
Proof. exact apply_waiters_have_no_deadline. Qed.
Print Assumptions C30_apply_waiters_have_no_deadline.
