(* Pinned statement of property C34. Nothing else lives here. *)
From Coq Require Import NArith List String.
From DE Require Import Gen.Config proofs.C34.
Import ListNotations.
Open Scope string_scope.
Open Scope N_scope.

Theorem C34_validate_sound :
  forall g : list string -> N,
    (forall p, g p <= 18446744073709551615) ->
    RaftConfig_validate g = true ->
    g ["read_consistency"; "lease_duration_ms"] + g ["read_consistency"; "network_rtt_p99_ms"] / 2
      < g ["election"; "election_timeout_min"]
    /\ g ["election"; "election_timeout_min"] < g ["election"; "election_timeout_max"]
    /\ g ["replication"; "rpc_append_entries_clock_in_ms"] <> 0
    /\ g ["batching"; "max_batch_size"] <> 0
    /\ g ["batching"; "max_merge_entries"] <> 0
    /\ g ["replication"; "append_entries_max_entries_per_replication"] <> 0
    /\ 1 <= g ["snapshot"; "retained_log_entries"].
Proof.
  intros g Hwf H. destruct (validate_sound g Hwf H). repeat split; assumption.
Qed.
Print Assumptions C34_validate_sound.

Theorem C34_nonvacuous : exists g, RaftConfig_validate g = true /\ (forall p, g p <= 18446744073709551615).
Proof. exists sample_cfg. exact validate_accepts_something. Qed.
Print Assumptions C34_nonvacuous.
