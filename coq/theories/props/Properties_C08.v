(* Pinned statements of property C08. Nothing else lives here. *)
From Coq Require Import NArith List.
From DE Require Import Val BufLog PLog Repl proofs.C08.
Import ListNotations.
Open Scope N_scope.

(* leader half: every request a leader assembles is contiguous from prev+1 — for every log state,
   cap, current term, commit index, set of peers with arbitrary next indexes, and new batch *)
Theorem C08_request_contiguous :
  forall (b : buf) (cap term commit : N) (peers : list (N * N)) (pls : list N) (p : N) (r : request),
    In (p, r) (snd (fst (leader_prepare b cap term commit peers pls))) ->
    contig (rq_prev r + 1) (rq_entries r).
Proof. exact request_contiguous. Qed.
Print Assumptions C08_request_contiguous.

(* follower half, on the plain log (transported to the buffered log by the C19 refinement):
   an accepted contiguous request leaves the log gap-free (p_wf), keeps every entry in front of the
   first conflict, and installs everything the log did not already hold *)
From DE Require Import proofs.C19.
Theorem C08_follower_gapfree :
  forall p prev pterm es, p_wf p -> contig (prev + 1) es -> terms_mono (N.max 1 pterm) es -> (prev = 0 -> pterm = 0) ->
    p_prev_matches p prev pterm = true -> (prev = 0 -> pb_idx p = 0) ->
    let p' := fst (p_filter_append p prev pterm es) in
    p_wf p' /\
    (forall e, In e (pents p) -> (forall d, In d (drop_agreeing p es) -> e_idx e < e_idx d) -> In e (pents p')) /\
    (forall e, In e (drop_agreeing p es) -> In e (pents p')).
Proof. exact p_filter_append_gapfree. Qed.
Print Assumptions C08_follower_gapfree.
