(* Pinned statements of property C08. Nothing else lives here. *)
From Coq Require Import NArith List.
From DE Require Import Val BufLog PLog Repl proofs.C08.
Import ListNotations.
Open Scope N_scope.

(* leader half: every request a leader assembles is contiguous from prev+1 — for every log state,
   cap, current term, commit index, set of peers with arbitrary next indexes, and new batch *)
Theorem C08_request_contiguous :
  forall (b : buf) (cap term commit : N) (peers : list (N * N)) (pls : list N) (p : N) (r : request),
    In (p, r) (snd (fst (leader_prepare b cap term commit peers pls))) ->
    contig (rq_prev r + 1) (rq_entries r).
Proof. exact request_contiguous. Qed.
Print Assumptions C08_request_contiguous.
