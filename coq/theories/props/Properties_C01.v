(* Pinned statements of property C01. Nothing else lives here. *)
From Coq Require Import NArith List.
From DE Require Import Val Election proofs.C02 proofs.C01.
Import ListNotations.
Open Scope N_scope.

(* quorum intersection: vote-once + majority-backed leaders => one leader per term, for every history *)
Theorem C01_election_safety_of_histories : forall U G Ls, vote_once G -> backed U G Ls ->
  forall a b t, In (a, t) Ls -> In (b, t) Ls -> a = b.
Proof. exact election_safety. Qed.
Print Assumptions C01_election_safety_of_histories.

(* the executable checkers applied to the histories of real clusters are sound *)
Theorem C01_checked_trace_is_safe : forall U G Ls, NoDup U -> vote_once_b G = true -> backed_b U G Ls = true ->
  forall a b t, In (a, t) Ls -> In (b, t) Ls -> a = b.
Proof. exact trace_safe. Qed.
Print Assumptions C01_checked_trace_is_safe.

(* local obligation: a node turns leader only with a strict majority of the voters behind it (itself
   included), or as the only voter *)
Theorem C01_leader_backed : forall s g h v d, en_role s <> Leader ->
  en_role (fst (estep s (ETimeout g h v d))) = Leader -> v = 0 \/ v + 1 < 2 * (g + 1).
Proof. exact leader_backed. Qed.
Print Assumptions C01_leader_backed.

(* the electorate of a vote round (Election.electorate, tied to GrpcTransport::send_vote_requests by the probe
   vote_round) is every listed voter except the candidate, each once, reachable or not ... *)
Theorem C01_electorate_is_all_other_voters : forall me vs x,
  In x (map fst (electorate me [] vs)) <-> In x (map fst vs) /\ x <> me.
Proof. intros me vs x. rewrite (electorate_spec me vs [] x). cbn [In]. tauto. Qed.
Print Assumptions C01_electorate_is_all_other_voters.

(* ... and a round is won only with grants that, with the candidate's own vote, are a strict majority of it *)
Theorem C01_round_won_needs_majority_of_all_voters : forall me t vs,
  round_won me t vs = 1 ->
  N.of_nat (length (electorate me [] vs)) + 1 < 2 * (round_granted (electorate me [] vs) + 1).
Proof. exact round_won_needs_majority_of_all_voters. Qed.
Print Assumptions C01_round_won_needs_majority_of_all_voters.

(* the abstract Raft system: in every reachable state, one leader per term *)
From DE Require Import AbstractRaft proofs.AR_election.
Theorem C01_election_safety : forall nodes s, reach nodes s ->
  forall a b t, In (a, t) (g_leaders s) -> In (b, t) (g_leaders s) -> a = b.
Proof. exact election_safety. Qed.
Print Assumptions C01_election_safety.
