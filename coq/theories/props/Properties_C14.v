(* Pinned statements of property C14. Nothing else lives here. *)
From Coq Require Import NArith List.
From DE Require Import Val LeaderQ proofs.C14.
Import ListNotations.
Open Scope N_scope.

Theorem C14_rejected_never_logged :
  forall (c : cfg) (noop : bool) (ops : list op) (id k aux : N),
    let s := run (init c noop) ops in
    In (id, k, aux) (q_resp s) -> k = K_NOTLEADER \/ k = K_INVALID \/ k = K_EXHAUSTED ->
    forall idx t, entry_at s idx <> Some (t, Some id).
Proof. exact rejected_never_logged. Qed.
Print Assumptions C14_rejected_never_logged.

Theorem C14_buffered_writes_rejected_on_step_down :
  forall (s : lq) (id : N), q_leader s = true -> In id (q_pbuf s) -> In (id, K_NOTLEADER, 0) (q_resp (step s OStepDown)).
Proof. exact buffered_writes_rejected_on_step_down. Qed.
Print Assumptions C14_buffered_writes_rejected_on_step_down.
