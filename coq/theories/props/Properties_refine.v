(* Pinned statements of the block `refine` (executable refinement checking of real executions against
   DE.AbstractRaft). Nothing else lives here. *)
From Coq Require Import NArith List.
From DE Require Import Val AbstractRaft ARExec proofs.ARExecSound
  proofs.AR_election proofs.AR_logs proofs.AR_complete proofs.AR_sms.
Import ListNotations.
Open Scope N_scope.

(* whatever the executable step accepts is a step of the abstract system *)
Theorem Refine_exec_sound : forall nodes s l s', aexec nodes s l = Some s' -> astep nodes s s'.
Proof. exact aexec_sound. Qed.
Print Assumptions Refine_exec_sound.

(* a label list accepted from the initial state ends in a reachable state *)
Theorem Refine_trace_reaches : forall nodes ls s, aexec_all nodes ainit ls = Some s -> reach nodes s.
Proof. exact aexec_all_sound. Qed.
Print Assumptions Refine_trace_reaches.

(* what the driver's vm_compute of [refine_ok] on a rendered execution establishes: the labels decode, they are a
   run of the abstract system from [ainit], and at every checkpoint some reachable abstract state matches the
   observed terms (modulo the offset), logs and commit indexes of all nodes *)
Theorem Refine_check_meaning : forall inp out, refine_ok inp out = true ->
  exists steps s, dec_steps (vl (vnth inp 2)) = Some steps /\
    reach (vnl (vnth inp 0)) s /\
    aexec_all (vnl (vnth inp 0)) ainit (labels_of steps) = Some s /\
    forall ls obs, In (ls, Some obs) steps ->
      exists sk, reach (vnl (vnth inp 0)) sk /\ obs_matches (vn (vnth inp 1)) (vnl (vnth inp 0)) sk obs = true.
Proof. exact refine_ok_reaches. Qed.
Print Assumptions Refine_check_meaning.
