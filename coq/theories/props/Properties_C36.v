(* Pinned statements of property C36. Nothing else lives here. *)
From Coq Require Import NArith List.
From DE Require Import Val BufLog PLog Repl Merge proofs.C36.
Import ListNotations.
Open Scope N_scope.

(* accepted (or refused-by-term) chain: same resulting state (log, term, commit index); every sender is
   told the same kind of answer with the same term; the merged success carries the match of the chain's
   last entry-carrying request; the match given one-at-a-time to any entry-carrying request is a lower bound *)
Theorem C36_merge_equiv_accept : forall s r1 rest,
  p_wf (ps_log s) -> (rq_prev r1 = 0 -> pb_idx (ps_log s) = 0) -> chain r1 rest -> chain_wf r1 rest ->
  (rq_term r1 < ps_term s \/ p_prev_matches (ps_log s) (rq_prev r1) (rq_pterm r1) = true) ->
  let '(sm, am) := p_follower_wf s (merge_all r1 rest) in
  let '(ss, acks) := p_run_seq s (r1 :: rest) in
  sm = ss
  /\ Forall (fun a => resp_kind a = resp_kind am /\ resp_term a = resp_term am) acks
  /\ (forall t lm, am = RSuccess t lm ->
        rq_entries (last rest r1) <> [] \/ rq_entries (merge_all r1 rest) = [] ->
        exists t', last acks am = RSuccess t' lm)
  /\ (forall k r a, nth_error (r1 :: rest) k = Some r -> rq_entries r <> [] -> nth_error acks k = Some a ->
        forall t lm t' lm', a = RSuccess t lm -> am = RSuccess t' lm' ->
        match lm, lm' with Some (i, _), Some (i', _) => i <= i' | _, _ => True end).
Proof. exact merge_equiv_accept. Qed.
Print Assumptions C36_merge_equiv_accept.

(* the request whose entries come last in the chain gets, one-at-a-time, exactly the merged answer *)
Theorem C36_last_entry_carrying_request_gets_merged_answer : forall s r1 rest,
  p_wf (ps_log s) -> (rq_prev r1 = 0 -> pb_idx (ps_log s) = 0) -> chain r1 rest -> chain_wf r1 rest ->
  rq_term r1 >= ps_term s -> p_prev_matches (ps_log s) (rq_prev r1) (rq_pterm r1) = true ->
  forall k r, nth_error (r1 :: rest) k = Some r -> rq_entries r <> [] ->
  (forall j r', (k < j)%nat -> nth_error (r1 :: rest) j = Some r' -> rq_entries r' = []) ->
  nth_error (snd (p_run_seq s (r1 :: rest))) k = Some (snd (p_follower_wf s (merge_all r1 rest))).
Proof. exact merge_equiv_accept_last_nonempty. Qed.
Print Assumptions C36_last_entry_carrying_request_gets_merged_answer.

(* rejected prev: nothing changes either way and everybody is answered with a conflict *)
Theorem C36_merge_equiv_conflict : forall s r1 rest,
  chain r1 rest -> rq_term r1 >= ps_term s ->
  p_prev_matches (ps_log s) (rq_prev r1) (rq_pterm r1) = false ->
  let '(sm, am) := p_follower_wf s (merge_all r1 rest) in
  let '(s1, a1) := p_follower_wf s r1 in
  ps_log sm = ps_log s /\ ps_commit sm = ps_commit s /\ ps_term sm = rq_term r1 /\
  resp_kind am = 1 /\ resp_term am = rq_term r1 /\
  s1 = sm /\ a1 = am /\
  (Forall (fun r => p_prev_matches (ps_log s) (rq_prev r) (rq_pterm r) = false) rest ->
   let '(ss, acks) := p_run_seq s (r1 :: rest) in
   ss = sm /\ length acks = length (r1 :: rest) /\
   Forall (fun a => resp_kind a = 1 /\ resp_term a = resp_term am) acks).
Proof. exact merge_equiv_conflict. Qed.
Print Assumptions C36_merge_equiv_conflict.
