(* Pinned statements of property C15. Nothing else lives here.
   C15 as stated ("the applied index a restarted node reports matches the data it holds, so re-applying committed
   entries, CAS included, can never change the state") is FALSE on the faithful model of both engines: the
   *_refuted theorems give the witnesses (replayed on the real engines by the smcrash probe). The *_partial
   theorems are what does hold for every op sequence and every crash point. *)
From Coq Require Import NArith List Bool.
From DE Require Import Val SMCrash SMCrashFix proofs.C15 proofs.C15fix.
Import ListNotations.
Open Scope N_scope.

(* ---------------- File engine ---------------- *)
Theorem C15_file_recovered_data_partial :
  forall (ops : list op) (p : cpoint),
    In p (file_crash_points ops) -> cp_torn p = false ->
    (forall k, fst (frecover (cp_disk p)) k = apply_all (cp_acked p) kv0 k) /\
    snd (frecover (cp_disk p)) <= N.of_nat (length (cp_acked p)).
Proof. exact file_recovered_data_complete. Qed.
Print Assumptions C15_file_recovered_data_partial.

Theorem C15_file_reapply_partial :
  forall (ops : list op) (p : cpoint),
    In p (file_crash_points ops) -> cp_torn p = false ->
    cas_free (skipn (N.to_nat (snd (frecover (cp_disk p)))) (cp_acked p)) = true ->
    forall k, reapply (snd (frecover (cp_disk p))) (cp_acked p ++ cp_rest p) (fst (frecover (cp_disk p))) k
              = apply_all (cp_acked p ++ cp_rest p) kv0 k.
Proof. exact file_reapply_without_cas. Qed.
Print Assumptions C15_file_reapply_partial.

Theorem C15_file_checkpoint_exact_partial :
  forall (ops : list op) (st := fold_left frun_op (ops ++ [OCkpt]) fstate0),
    snd (frecover (f_disk st)) = f_la st /\ forall k, fst (frecover (f_disk st)) k = f_kv st k.
Proof. exact file_checkpoint_exact. Qed.
Print Assumptions C15_file_checkpoint_exact_partial.

Theorem C15_file_reapply_refuted :
  exists (ops : list op) (p : cpoint),
    In p (file_crash_points ops) /\ cp_torn p = false /\
    exists k, reapply (snd (frecover (cp_disk p))) (cp_acked p ++ cp_rest p) (fst (frecover (cp_disk p))) k
              <> apply_all (cp_acked p ++ cp_rest p) kv0 k.
Proof. exact file_reapply_refuted. Qed.
Print Assumptions C15_file_reapply_refuted.

Theorem C15_file_index_matches_data_refuted :
  exists (ops : list op) (p : cpoint),
    In p (file_crash_points ops) /\ cp_torn p = false /\
    exists k, fst (frecover (cp_disk p)) k
              <> apply_all (firstn (N.to_nat (snd (frecover (cp_disk p)))) (cp_acked p)) kv0 k.
Proof. exact file_index_behind_data. Qed.
Print Assumptions C15_file_index_matches_data_refuted.

Theorem C15_file_checkpoint_truncation_refuted :
  exists (ops : list op) (p : cpoint),
    In p (file_crash_points ops) /\ cp_torn p = true /\ cas_free (cp_acked p) = true /\
    exists k, reapply (snd (frecover (cp_disk p))) (cp_acked p ++ cp_rest p) (fst (frecover (cp_disk p))) k
              <> apply_all (cp_acked p ++ cp_rest p) kv0 k.
Proof. exact file_checkpoint_truncation_loses_data. Qed.
Print Assumptions C15_file_checkpoint_truncation_refuted.

Theorem C15_file_shutdown_save_truncation_refuted :
  exists (ops : list op) (p : cpoint),
    In p (file_crash_points ops) /\ cp_torn p = true /\ cas_free (cp_acked p) = true /\
    snd (frecover (cp_disk p)) = N.of_nat (length (cp_acked p)) /\
    exists k, fst (frecover (cp_disk p)) k <> apply_all (cp_acked p) kv0 k.
Proof. exact file_save_truncation_loses_data. Qed.
Print Assumptions C15_file_shutdown_save_truncation_refuted.

(* ---------------- RocksDB engine ---------------- *)
Theorem C15_rocks_recovered_data_partial :
  forall (ops : list op) (p : rpoint),
    In p (rocks_crash_points ops) ->
    (forall k, fst (rrecover (rp_disk p)) k = apply_all (rp_acked p) kv0 k) /\
    snd (rrecover (rp_disk p)) <= N.of_nat (length (rp_acked p)).
Proof. exact rocks_recovered_data_complete. Qed.
Print Assumptions C15_rocks_recovered_data_partial.

Theorem C15_rocks_reapply_partial :
  forall (ops : list op) (p : rpoint),
    In p (rocks_crash_points ops) ->
    cas_free (skipn (N.to_nat (snd (rrecover (rp_disk p)))) (rp_acked p)) = true ->
    forall k, reapply (snd (rrecover (rp_disk p))) (rp_acked p) (fst (rrecover (rp_disk p))) k
              = apply_all (rp_acked p) kv0 k.
Proof. exact rocks_reapply_without_cas. Qed.
Print Assumptions C15_rocks_reapply_partial.

Theorem C15_rocks_flush_exact_partial :
  forall (ops : list op) (st := fold_left rrun_op (ops ++ [OCkpt]) rstate0),
    snd (rrecover (r_disk st)) = r_la st.
Proof. exact rocks_flush_exact. Qed.
Print Assumptions C15_rocks_flush_exact_partial.

Theorem C15_rocks_reapply_refuted :
  exists (ops : list op) (p : rpoint),
    In p (rocks_crash_points ops) /\
    exists k, reapply (snd (rrecover (rp_disk p))) (rp_acked p) (fst (rrecover (rp_disk p))) k
              <> apply_all (rp_acked p) kv0 k.
Proof. exact rocks_reapply_refuted. Qed.
Print Assumptions C15_rocks_reapply_refuted.

Theorem C15_rocks_index_matches_data_refuted :
  exists (ops : list op) (p : rpoint),
    In p (rocks_crash_points ops) /\
    exists k, fst (rrecover (rp_disk p)) k
              <> apply_all (firstn (N.to_nat (snd (rrecover (rp_disk p)))) (rp_acked p)) kv0 k.
Proof. exact rocks_index_behind_data. Qed.
Print Assumptions C15_rocks_index_matches_data_refuted.

(* ---------------- the suggested repairs (DE.SMCrashFix, not the code that exists) ---------------- *)
(* with last_applied in the same write batch as the data the full statement holds at every crash point *)
Theorem C15_rocks_repaired_model_exact :
  forall (ops : list op) (p : rpoint),
    In p (rocks_crash_points_fx ops) ->
    (forall k, fst (rrecover (rp_disk p)) k = apply_all (rp_acked p) kv0 k) /\
    snd (rrecover (rp_disk p)) = N.of_nat (length (rp_acked p)) /\
    forall rest k, reapply (snd (rrecover (rp_disk p))) (rp_acked p ++ rest) (fst (rrecover (rp_disk p))) k
                   = apply_all (rp_acked p ++ rest) kv0 k.
Proof. exact rocks_fixed_exact. Qed.
Print Assumptions C15_rocks_repaired_model_exact.

(* with atomic replacement of state.data / metadata.bin and replay_wal advancing last_applied to the highest replayed
   index the full statement holds at every crash point *)
Theorem C15_file_repaired_model_exact :
  forall (ops : list op) (p : xpoint),
    In p (file_crash_points_fx ops) ->
    (forall k, fst (xrecover (xp_disk p)) k = apply_all (xp_acked p) kv0 k) /\
    snd (xrecover (xp_disk p)) = N.of_nat (length (xp_acked p)) /\
    forall k, reapply (snd (xrecover (xp_disk p))) (xp_acked p ++ xp_rest p) (fst (xrecover (xp_disk p))) k
              = apply_all (xp_acked p ++ xp_rest p) kv0 k.
Proof. exact file_fixed_exact. Qed.
Print Assumptions C15_file_repaired_model_exact.
