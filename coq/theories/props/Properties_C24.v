(* Pinned statements of property C24. Nothing else lives here. *)
From Coq Require Import NArith List Bool Sorted.
From DE Require Import Val Watch proofs.C24.
Import ListNotations.
Open Scope N_scope.

(* Vocabulary (proofs.C24): stream w = w_got w ++ w_q w (received + buffered, in order); data = the put/delete
   events of a list; nocancel l = no CANCELED in l; mt w e = the dispatcher's lookup reaches w for e's key;
   shape w sent rest = exists body pre post, nocancel body /\ skipn (w_from w) sent = pre ++ post /\
     data body = filter (mt w) pre /\
     ((w_live w = true /\ stream w = body /\ post = rest) \/ (w_live w = false /\ exists k, stream w = body ++ [cancel_ev k])). *)

(* Every schedule without broadcast overflow: a held watcher's stream is progress events interleaved with exactly
   the matching events broadcast from a point not later than its registration — all of them except those still
   queued for the dispatcher — or such a gap-free run followed by one final CANCELED with the watcher unregistered. *)
Theorem C24_stream_spec :
  forall (b q m : N) (hb : bool) (a : N) (ls : list label) (w : watcher),
    let s := run (init b q m hb a) ls in
    s_lost s = 0 -> In w (s_ws s) -> w_held w = true ->
    (w_from w <= w_reg w)%nat /\
    exists body pre post,
      nocancel body = true /\ skipn (w_from w) (s_sent s) = pre ++ post /\ data body = filter (mt w) pre /\
      ((w_live w = true /\ stream w = body /\ post = s_bq s) \/
       (w_live w = false /\ exists k, stream w = body ++ [cancel_ev k])).
Proof. exact stream_spec. Qed.
Print Assumptions C24_stream_spec.

(* Every schedule, overflow or not: the same relative to what the dispatcher actually dispatched. *)
Theorem C24_stream_vs_dispatched :
  forall (b q m : N) (hb : bool) (a : N) (ls : list label) (w : watcher),
    let s := run (init b q m hb a) ls in
    In w (s_ws s) -> w_held w = true ->
    exists body pre post,
      nocancel body = true /\ skipn (w_from w) (s_disp s) = pre ++ post /\ data body = filter (mt w) pre /\
      ((w_live w = true /\ stream w = body /\ post = []) \/
       (w_live w = false /\ exists k, stream w = body ++ [cancel_ev k])).
Proof. exact stream_vs_dispatched. Qed.
Print Assumptions C24_stream_vs_dispatched.

Theorem C24_complete_when_idle :
  forall (b q m : N) (hb : bool) (a : N) (ls : list label) (w : watcher),
    let s := run (init b q m hb a) ls in
    s_lost s = 0 -> s_bq s = [] -> In w (s_ws s) -> w_held w = true -> w_live w = true ->
    nocancel (stream w) = true /\
    exists early, data (stream w) = early ++ filter (mt w) (skipn (w_reg w) (s_sent s)).
Proof. exact complete_when_idle. Qed.
Print Assumptions C24_complete_when_idle.

Theorem C24_sent_are_committed_changes :
  forall (b q m : N) (hb : bool) (a : N) (ls : list label),
    s_sent (run (init b q m hb a) ls) =
    flat_map (fun l => match l with LApply fail c => chunk_events fail c | _ => [] end) ls.
Proof. exact sent_are_committed_changes. Qed.
Print Assumptions C24_sent_are_committed_changes.

Theorem C24_events_only_for_changes :
  forall (n : entry) (e : wev), In e (entry_event n) ->
    (n_kind n = 1 \/ n_kind n = 2 \/ (n_kind n = 3 /\ n_ok n = true)) /\
    e_key e = n_key n /\ e_rev e = n_idx n /\ is_data e = true.
Proof. exact entry_event_spec. Qed.
Print Assumptions C24_events_only_for_changes.

Theorem C24_failed_cas_no_event :
  forall n : entry, n_kind n = 3 -> n_ok n = false -> entry_event n = [].
Proof. exact failed_cas_no_event. Qed.
Print Assumptions C24_failed_cas_no_event.

Theorem C24_prefix_matching :
  forall (pre : bool) (wk k : key),
    matchk pre wk k = true <->
    (if pre then (exists p0, wk = p0 ++ [47]) /\ (exists r, k = wk ++ r) else wk = k).
Proof. exact matchk_spec. Qed.
Print Assumptions C24_prefix_matching.

Theorem C24_registered_prefix_ends_with_slash :
  forall p : key, valid_prefix p = true -> exists p0, p = p0 ++ [47].
Proof. exact valid_prefix_slash. Qed.
Print Assumptions C24_registered_prefix_ends_with_slash.

Theorem C24_revisions_increasing_partial :
  forall (b q m : N) (hb : bool) (a : N) (ls : list label) (w : watcher),
    let s := run (init b q m hb a) ls in
    s_lost s = 0 -> In w (s_ws s) -> w_held w = true ->
    StronglySorted (fun x y => e_rev x < e_rev y) (s_sent s) ->
    StronglySorted (fun x y => e_rev x < e_rev y) (data (stream w)).
Proof. exact revisions_increasing_partial. Qed.
Print Assumptions C24_revisions_increasing_partial.

(* The "no silent gaps" clause is refuted for the code as written (global broadcast lag). *)
Theorem C24_lag_refuted :
  exists ls, let s := run (init 8 4 10 false 0) ls in
    exists w, In w (s_ws s) /\ w_held w = true /\ w_live w = true /\ w_reg w = 0%nat /\
      s_bq s = [] /\ s_lag s = 0 /\ s_unreg s = [] /\ nocancel (stream w) = true /\
      map e_rev (filter (mt w) (skipn (w_reg w) (s_sent s))) = [1; 2; 3; 4; 5; 6] /\
      map e_rev (data (stream w)) = [3; 4; 5; 6].
Proof. exact lag_refuted. Qed.
Print Assumptions C24_lag_refuted.
