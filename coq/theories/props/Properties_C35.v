(* Pinned statements of property C35. Nothing else lives here. *)
From Coq Require Import NArith List Bool.
From DE Require Import Val KV MultiGet proofs.C22 proofs.C35.
Import ListNotations.
Open Scope N_scope.

(* The realignment used by EmbeddedReadHandle::cmd_tx_path, StandaloneReadHandle::get_batch and (with keys attached)
   GrpcClient::get_multi_with_policy: the server's sparse answer (read_from_state_machine: found keys only, in request
   order, duplicates repeated) collected into a hash map and looked up per requested key gives, for EVERY store and
   EVERY key list (duplicates, missing keys, empty keys, empty values), the position-wise lookup. *)
Theorem C35_realign_correct :
  forall (st : kv) (keys : list key),
    realign_embedded keys (read_from_sm st keys) = map (lookup st) keys.
Proof. exact realign_correct. Qed.
Print Assumptions C35_realign_correct.

(* ... and this does not depend on the order / multiplicity in which the server lists the entries *)
Theorem C35_realign_any_sound_complete_answer :
  forall (st : kv) (keys : list key) (es : list (key * value)),
    (forall k v, In (k, v) es -> lookup st k = Some v) ->
    (forall k v, In k keys -> lookup st k = Some v -> In k (map fst es)) ->
    realign_embedded keys es = map (lookup st) keys.
Proof. exact realign_general. Qed.
Print Assumptions C35_realign_any_sound_complete_answer.

Theorem C35_fast_path_response_is_sparse_answer :
  forall (st : kv) (keys : list key), fast_path keys (sm_get_multi st keys) = read_from_sm st keys.
Proof. exact fast_path_correct. Qed.
Print Assumptions C35_fast_path_response_is_sparse_answer.

(* Embedded client, both routes (direct SM::get_multi; cmd_tx fallback / linearizable): one result per requested key,
   in request order, each the key's value or absent. *)
Theorem C35_embedded_paths_aligned :
  forall (st : kv) (keys : list key),
    (exists r, embedded_direct st keys = Some r /\
               length r = length keys /\ forall i, (i < length keys)%nat -> nth i r None = lookup st (nth i keys [])) /\
    (exists r, embedded_cmd_path st keys = Some r /\
               length r = length keys /\ forall i, (i < length keys)%nat -> nth i r None = lookup st (nth i keys [])).
Proof. exact embedded_paths_aligned. Qed.
Print Assumptions C35_embedded_paths_aligned.

(* gRPC client, both server routes (cmd path + to_proto_response; fast path + fast_path_batch_read_response), for every
   non-empty key list (an empty list is rejected by the client with InvalidRequest before any request is sent): one
   result per requested key, in request order, the value or absent, and a present result carries the requested key. *)
Theorem C35_grpc_paths_aligned :
  forall (st : kv) (keys : list key),
    keys <> [] ->
    (exists r, grpc_cmd_path st keys = Some r /\
               (length (values_of r) = length keys /\
                forall i, (i < length keys)%nat -> nth i (values_of r) None = lookup st (nth i keys [])) /\
               forall i k v, nth_error r i = Some (Some (k, v)) -> nth_error keys i = Some k) /\
    (exists r, grpc_fast_path st keys = Some r /\
               (length (values_of r) = length keys /\
                forall i, (i < length keys)%nat -> nth i (values_of r) None = lookup st (nth i keys [])) /\
               forall i k v, nth_error r i = Some (Some (k, v)) -> nth_error keys i = Some k).
Proof. exact grpc_paths_aligned. Qed.
Print Assumptions C35_grpc_paths_aligned.
