(* Pinned statements of property C29. Nothing else lives here. *)
From Coq Require Import NArith List.
From DE Require Import Val LeaderQ proofs.C29.
Import ListNotations.
Open Scope N_scope.

Theorem C29_success_only_after_commit_and_apply :
  forall (c : cfg) (noop : bool) (ops : list op) (id aux : N),
    let s := run (init c noop) ops in
    In (id, K_WOK, aux) (q_resp s) ->
    exists idx f t, entry_at s idx = Some (t, Some id) /\ idx <= q_commit s /\ idx <= q_applied s /\
                    In (idx, f) (q_flags s) /\ aux = (if f : bool then 1 else 0).
Proof. exact success_only_after_commit_and_apply. Qed.
Print Assumptions C29_success_only_after_commit_and_apply.

Theorem C29_batch_alignment :
  forall (c : cfg) (noop : bool) (ops : list op),
    let s := run (init c noop) ops in
    (forall b i id, In b (q_pcw s) -> nth_error (b_ids b) i = Some id ->
        exists t, entry_at s (b_start b + N.of_nat i) = Some (t, Some id)) /\
    (forall k id, In (k, id) (q_pwa s) -> k <= q_commit s /\ exists t, entry_at s k = Some (t, Some id)).
Proof. exact batch_alignment. Qed.
Print Assumptions C29_batch_alignment.
