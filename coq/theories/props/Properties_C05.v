(* Pinned statements of property C05. Nothing else lives here. *)
From Coq Require Import NArith List.
From DE Require Import AbstractRaft proofs.AR_election proofs.AR_logs proofs.AR_complete proofs.AR_sms.
Import ListNotations.
Open Scope N_scope.

(* leader completeness: what the leader of term t committed is a prefix of the log of every leader of a later term *)
Theorem C05_leader_completeness : forall nodes s, reach nodes s ->
  forall t t' l', t < t' -> In (l', t') (g_leaders s) ->
  forall i, i <= g_lcommit s t -> i <= N.of_nat (length (g_llog s t)) ->
  prefix (g_llog s t') i = prefix (g_llog s t) i.
Proof. exact leader_completeness. Qed.
Print Assumptions C05_leader_completeness.

(* no node's commit index points beyond its log: a committed entry is not discarded by the node that marked it *)
Theorem C05_commit_within_log : forall nodes s, reach nodes s ->
  forall n, a_commit s n <= N.of_nat (length (a_log s n)).
Proof. exact commit_within_log. Qed.
Print Assumptions C05_commit_within_log.
