(* Pinned statements of property C02. Nothing else lives here. *)
From Coq Require Import NArith List.
From DE Require Import Val Election proofs.C02.
Import ListNotations.
Open Scope N_scope.

(* the term never decreases along any event sequence without a kill (graceful restarts included) *)
Theorem C02_term_monotone : forall es s, no_kill es -> en_term s <= en_term (fst (erun s es)).
Proof. exact term_monotone_run. Qed.
Print Assumptions C02_term_monotone.

(* one candidate per term, except re-grants to the candidate whose leadership of that term the node
   had already recorded (known class: the vote record is overwritten by the leader id) *)
Theorem C02_vote_once_outside_regrant : forall es s, no_kill es -> wf_node s ->
  forall t c1 c2 b1 b2,
    (forall c, ~ In (t, c, true) (snd (erun s es))) ->
    In (t, c1, b1) (snd (erun s es)) -> In (t, c2, b2) (snd (erun s es)) -> c1 = c2.
Proof. exact vote_once_run_noregrant. Qed.
Print Assumptions C02_vote_once_outside_regrant.

Theorem C02_vote_once_general : forall es s, no_kill es -> wf_node s ->
  forall t c1 c2 b1 b2,
    In (t, c1, b1) (snd (erun s es)) -> In (t, c2, b2) (snd (erun s es)) -> b1 = false -> b2 = false ->
    c1 = c2 \/ In (t, c1, true) (snd (erun s es)) \/ In (t, c2, true) (snd (erun s es)).
Proof. exact vote_once_run. Qed.
Print Assumptions C02_vote_once_general.

Theorem C02_graceful_restart_keeps_term_and_vote : forall s,
  en_term (fst (estep s (ERestart true))) = en_term s /\ en_vote (fst (estep s (ERestart true))) = en_vote s.
Proof. exact graceful_restart_keeps. Qed.
Print Assumptions C02_graceful_restart_keeps_term_and_vote.

(* the full statement (any crash) is refuted: the hard state is written only when the Raft object is dropped *)
Theorem C02_kill_refuted : exists es t c1 c2, c1 <> c2 /\
  In (t, c1, false) (snd (erun (enode0 1 (0, 0)) es)) /\ In (t, c2, false) (snd (erun (enode0 1 (0, 0)) es)).
Proof. exact kill_refuted. Qed.
Print Assumptions C02_kill_refuted.

Theorem C02_regrant_refuted : exists es, no_kill es /\ exists t c1 c2 b1 b2, c1 <> c2 /\
  In (t, c1, b1) (snd (erun (enode0 1 (0, 0)) es)) /\ In (t, c2, b2) (snd (erun (enode0 1 (0, 0)) es)).
Proof. exact regrant_witness. Qed.
Print Assumptions C02_regrant_refuted.
