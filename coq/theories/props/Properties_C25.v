(* Pinned statements of property C25. Nothing else lives here. *)
From Coq Require Import NArith List Bool.
From DE Require Import Val Scan proofs.C25.
Import ListNotations.
Open Scope N_scope.

(* For every schedule of apply steps and scans before it: a scan that starts while apply_chunk is not between its
   two steps (data written, last_applied not yet published) and is not overtaken by an apply step returns the
   iteration over the state after all entries up to exactly the revision it reports (both engines). *)
Theorem C25_quiescent_scan_consistent :
  forall (en : engine) (chunks : list (list cmd)) (ls : list label) (p : bytes),
    let m := mrun en ls (minit chunks) in
    m_mid m = None -> m_iter m = None ->
    m_out (mrun en [LIter p; LRev] m) = m_out m ++ [(iter_of en p (state_at chunks (m_applied m)), m_applied m)].
Proof. exact quiescent_scan_consistent. Qed.
Print Assumptions C25_quiescent_scan_consistent.

(* File: the iteration is exactly "the keys with that prefix".
   RocksDB, general statement NOT proved (kept as a comment):
     forall p s, p <> [] -> sorted s -> all bytes < 256 -> rocks_iter p s = scan_spec p s
   proved part: the bounded comparison below (all prefixes of length <= 2 over {0x00,'a',0xFE,0xFF} plus FF FF FF and
   a FF FF, against the store holding every such key); the correspondence check covers random key sets. *)
Theorem C25_file_scan_exact : forall (p : bytes) (s : store), file_iter p s = scan_spec p s.
Proof. exact file_scan_exact. Qed.
Print Assumptions C25_file_scan_exact.

Theorem C25_rocks_scan_exact_partial :
  forallb (fun p => beqb (map (fun e => hd 0 (snd e)) (rocks_iter p full_store)) (map (fun e => hd 0 (snd e)) (scan_spec p full_store))
                    && (N.of_nat (length (rocks_iter p full_store)) =? N.of_nat (length (scan_spec p full_store)))
                    && forallb (fun e => starts_with p (fst e)) (rocks_iter p full_store))
          (words2 ++ [[255;255;255]; [97;255;255]]) = true.
Proof. exact rocks_scan_exact_small_scope. Qed.
Print Assumptions C25_rocks_scan_exact_partial.

(* ---- refuted: "for ALL interleavings of a scan with concurrent applies" ---- *)
Theorem C25_rocks_scan_race_refuted :
  let chunks := [[CPut [112;47;97] [1]]; [CPut [112;47;120] [2]]] in
  let m := mrun ERocks [LWrite; LPublish; LIter [112;47]; LWrite; LPublish; LRev] (minit chunks) in
  m_out m = [([([112;47;97],[1])], 2)] /\
  scan_spec [112;47] (state_at chunks 2) = [([112;47;97],[1]); ([112;47;120],[2])].
Proof. exact rocks_scan_race. Qed.
Print Assumptions C25_rocks_scan_race_refuted.

Theorem C25_scan_between_apply_steps_refuted :
  forall en : engine,
    let chunks := [[CPut [112;47;97] [1]]; [CPut [112;47;120] [2]]] in
    let m := mrun en [LWrite; LPublish; LWrite; LIter [112;47]; LRev; LPublish] (minit chunks) in
    m_out m = [([([112;47;97],[1]); ([112;47;120],[2])], 1)] /\
    scan_spec [112;47] (state_at chunks 1) = [([112;47;97],[1])].
Proof. exact scan_between_apply_steps. Qed.
Print Assumptions C25_scan_between_apply_steps_refuted.
