(* Pinned statements of property C11. Nothing else lives here. *)
From Coq Require Import NArith List Bool.
From DE Require Import Val BufLog LeaderRead proofs.C11.
Import ListNotations.
Open Scope N_scope.

(* PARTIAL: the index half of "a linearizable read is served only after a quorum confirmed leadership after the read
   arrived and with last_applied >= read_index >= commit at arrival". The freshness half is refuted below. *)
Theorem C11_lin_read_index_sound_partial :
  forall c t a0 es r,
    In r (done (lrun c es (l0 t a0 c))) -> s_kind r = 1 -> s_ok r = true ->
    s_carr r <= s_ridx r /\ s_ridx r <= s_applied r /\ (s_path r = 1 \/ s_path r = 2 \/ s_path r = 3).
Proof. exact lin_index_sound. Qed.
Print Assumptions C11_lin_read_index_sound_partial.

Theorem C11_pathA_stale_ack_refuted :
  exists es, fresh_of (lrun cfg3 es (l0 1 0 cfg3)) 0 = Some false.
Proof. eexists. exact pathA_stale_ack_refuted. Qed.
Print Assumptions C11_pathA_stale_ack_refuted.

Theorem C11_pathB_no_ack_refuted :
  fresh_of (lrun cfg3 [PAck 2 3 true 5 0; PNow 100; PLin; PApply 5] (l0 1 0 cfg3)) 0 = Some false.
Proof. exact pathB_no_ack_refuted. Qed.
Print Assumptions C11_pathB_no_ack_refuted.

Theorem C11_pathA_single_voter_ack_of_five_refuted :
  fresh_of (lrun cfg5 [PAck 2 3 true 5 0; PAck 3 3 true 5 0; PApplied 5; PNow 100; PLin; PAck 4 3 true 5 1] (l0 1 0 cfg5)) 0 = Some false.
Proof. exact pathA_single_fresh_ack_refuted. Qed.
Print Assumptions C11_pathA_single_voter_ack_of_five_refuted.

