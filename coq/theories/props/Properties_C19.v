(* Pinned statements of property C19. Nothing else lives here. *)
From Coq Require Import NArith List.
From DE Require Import Val BufLog PLog proofs.C19.
Import ListNotations.
Open Scope N_scope.

(* every answer of the buffered log equals the plain log's, in every state satisfying the invariant *)
Theorem C19_answers_agree :
  forall b, Inv b -> p_wf (abs b) ->
    forall i t lo hi, answers_b b i t lo hi = answers_p (abs b) i t lo hi.
Proof. exact answers_agree. Qed.
Print Assumptions C19_answers_agree.

(* one operation: invariant kept, the abstraction commutes, and the operation's own result
   (the last-match id of the conflict-aware append) is the spec's *)
Theorem C19_refine_step :
  forall b o, Inv b -> p_wf (abs b) -> shaped (abs b) o ->
    Inv (fst (step b o)) /\ p_wf (abs (fst (step b o))) /\ abs (fst (step b o)) = fst (p_step (abs b) o)
    /\ (match o with OAlloc _ => True | _ => snd (step b o) = snd (p_step (abs b) o) end).
Proof. exact refine_step. Qed.
Print Assumptions C19_refine_step.

(* any Raft-shaped operation sequence, of any length, from any state satisfying the invariant *)
Theorem C19_refine_run :
  forall ops b, Inv b -> p_wf (abs b) -> shaped_run (abs b) ops ->
    let b' := fold_left (fun s o => fst (step s o)) ops b in
    Inv b' /\ p_wf (abs b') /\ abs b' = fold_left (fun s o => fst (p_step s o)) ops (abs b).
Proof. exact refine_run. Qed.
Print Assumptions C19_refine_run.

Theorem C19_initial_state : Inv buf0 /\ p_wf (abs buf0).
Proof. exact Inv_buf0. Qed.
Print Assumptions C19_initial_state.
