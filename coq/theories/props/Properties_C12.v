(* Pinned statements of property C12. Nothing else lives here. *)
From Coq Require Import NArith List String Bool.
From DE Require Import Val Lease Gen.Config proofs.C34 proofs.C12.
Import ListNotations.
Open Scope N_scope.

(* (a) configuration validation rejects any lease window that is not shorter than the minimum election timeout
       (regenerated definitions DE.Gen.Config; over unbounded N, so no wrap-around artefact) *)
Theorem C12_config_lease_below_election_timeout :
  forall g : list string -> N,
    (forall p, g p <= 18446744073709551615) ->
    RaftConfig_validate g = true ->
    g ["read_consistency"; "lease_duration_ms"]%string + g ["read_consistency"; "network_rtt_p99_ms"]%string / 2
      < g ["election"; "election_timeout_min"]%string.
Proof. intros g Hwf Hv. exact (t_lease g (validate_sound g Hwf Hv)). Qed.
Print Assumptions C12_config_lease_below_election_timeout.

(* (b) the packed ReadLease cell *)
Theorem C12_pack_roundtrip :
  forall t d p, rl_pack t d = Some p -> rl_unpack p = (t mod 65536, d) /\ p < 18446744073709551616.
Proof. intros t d p Hp. split; [exact (unpack_pack t d p Hp) | exact (pack_fits t d p Hp)]. Qed.
Print Assumptions C12_pack_roundtrip.

Theorem C12_term_wraps_at_16_bits :
  forall s t now, rl_is_valid_for s (t + 65536) now = rl_is_valid_for s t now.
Proof. exact valid_for_term_wrap. Qed.
Print Assumptions C12_term_wraps_at_16_bits.

Theorem C12_revoke_invalidates :
  forall s now t, rl_is_valid (fst (rl_step s RRevoke)) now = false /\ rl_is_valid_for (fst (rl_step s RRevoke)) t now = false.
Proof. exact revoke_invalidates. Qed.
Print Assumptions C12_revoke_invalidates.

Theorem C12_revoked_until_renewed :
  forall ops s now, forallb (fun o => negb (is_renew o)) ops = true -> rl_is_valid (rl_run (RRevoke :: ops) s) now = false.
Proof. exact revoke_until_renew. Qed.
Print Assumptions C12_revoked_until_renewed.

Theorem C12_renew_valid_exactly_until_deadline :
  forall s t d now t', d <= 281474976710655 ->
    rl_is_valid (fst (rl_step s (RRenew t d))) now = (now <? d) /\
    rl_is_valid_for (fst (rl_step s (RRenew t d))) t' now = ((t mod 65536 =? t' mod 65536) && (now <? d)).
Proof. exact renew_spec. Qed.
Print Assumptions C12_renew_valid_exactly_until_deadline.

Theorem C12_validity_monotone_in_time :
  forall s n1 n2, n1 <= n2 -> rl_is_valid s n2 = true -> rl_is_valid s n1 = true.
Proof. exact valid_antitone. Qed.
Print Assumptions C12_validity_monotone_in_time.

(* (c) protocol: with vote withholding, acked-request anchoring, a fresh quorum and lease < emin, for every event
   sequence: when another node has won the next term's election the lease is invalid *)
Theorem C12_lease_safe_with_protections :
  forall c es, ideal c -> won (prun c es p0) = true -> lease_valid (prun c es p0) = false.
Proof. exact lease_safe. Qed.
Print Assumptions C12_lease_safe_with_protections.

Theorem C12_stepdown_invalidates_forever :
  forall c es s, stepped s = true -> dl s = 0 -> lease_valid (prun c es s) = false.
Proof. exact stepdown_sticks. Qed.
Print Assumptions C12_stepdown_invalidates_forever.

(* the code has none of the three protections: the property as stated is refuted on the as-coded protocol model
   (the same trace is replayed on the real leader + real followers by probe lease_cluster) *)
Theorem C12_as_coded_refuted :
  exists es, won (prun (coded [2; 3] 250 500 3) es p0) = true /\ lease_valid (prun (coded [2; 3] 250 500 3) es p0) = true.
Proof. eexists. exact coded_refuted. Qed.
Print Assumptions C12_as_coded_refuted.

Theorem C12_each_protection_is_necessary :
  (exists es, unsafe (cfg_flags [2; 3] 3 false true true) es) /\
  (exists es, unsafe (cfg_flags [2; 3] 3 true false true) es) /\
  (exists es, unsafe (cfg_flags [2; 3; 4; 5] 5 true true false) es).
Proof.
  split; [eexists; exact no_withholding_refuted|]. split; [eexists; exact latest_send_anchor_refuted|].
  eexists; exact cumulative_quorum_refuted.
Qed.
Print Assumptions C12_each_protection_is_necessary.

(* the server's read actor (fast path of lease and eventual reads; model DE.ReadActor, probe read_actor): every lease
   read that is served saw a valid lease at the moment of its own state machine read, also in the middle of a drained
   batch, and once the lease is gone no lease read of the batch is served *)
From DE Require Import ReadActor proofs.C12actor.
Theorem C12_read_actor_served_lease_reads_saw_valid_lease : forall pols valid reads k p v,
  In (p, v) (served_flags pols (fst (ra_run pols valid reads k)) (snd (ra_run pols valid reads k))) -> p = 2%N -> v = 1%N.
Proof. exact served_lease_reads_saw_valid_lease. Qed.
Print Assumptions C12_read_actor_served_lease_reads_saw_valid_lease.

Theorem C12_read_actor_no_lease_read_without_lease : forall pols reads k,
  (k = 0%N \/ (k <= reads)%N) ->
  forall i, nth_error pols i = Some 2%N -> nth_error (fst (ra_run pols false reads k)) i = Some 2%N.
Proof. exact no_lease_read_without_lease. Qed.
Print Assumptions C12_read_actor_no_lease_read_without_lease.
