(* Pinned statements of property C13. Nothing else lives here. *)
From Coq Require Import NArith List Bool.
From DE Require Import Val ReadRoute proofs.C13.
Import ListNotations.
Open Scope N_scope.

Theorem C13_command_path_sound :
  forall (role default : N) (override : bool) (req : N),
    let o := command_path role default override req in
    (forall p, policy_used o = Some p -> p = effective default override req /\ (override = false -> p = default)) /\
    (is_leader role = false -> o = ServedLocal R_EV \/ o = NotLeader) /\
    (is_leader role = false -> effective default override req <> R_EV -> o = NotLeader) /\
    (is_leader role = true -> o = LeaderQueue (effective default override req)).
Proof. exact command_path_sound. Qed.
Print Assumptions C13_command_path_sound.

Theorem C13_non_leader_never_serves_lin_or_lease :
  forall (path role default : N) (override : bool) (req : N),
    is_leader role = false ->
    route path role default override req false <> ServedLocal R_LIN /\
    route path role default override req false <> ServedLocal R_LEASE.
Proof. exact non_leader_never_serves_lin_or_lease. Qed.
Print Assumptions C13_non_leader_never_serves_lin_or_lease.

(* the second sentence of the property does not hold on the API fast paths as coded *)
Theorem C13_override_disabled_fast_path_refuted :
  exists (path role default req : N) (lease : bool),
    policy_used (route path role default false req lease) <> None /\
    policy_used (route path role default false req lease) <> Some default.
Proof. exact override_disabled_fast_path_refuted. Qed.
Print Assumptions C13_override_disabled_fast_path_refuted.
