(* Pinned statements of property C22. Nothing else lives here. *)
From Coq Require Import NArith List Bool.
From DE Require Import Val KV proofs.C22.
Import ListNotations.
Open Scope N_scope.

(* Both engines' apply_chunk (FileStateMachine: base/delta overlay + replay with pre-computed outcomes;
   RocksDBStateMachine: WriteBatchWithIndex read-through) give, for EVERY start state, EVERY command sequence and
   EVERY split of it into apply batches (independently chosen per engine), exactly the store and the per-entry
   success flags of the reference semantics. *)
Theorem C22_engines_equal_reference_for_every_chunking :
  forall (m : kv) (cmds : list cmd) (chunks_f chunks_r : list (list cmd)),
    concat chunks_f = cmds -> concat chunks_r = cmds ->
    run_chunks file_apply_chunk m chunks_f = apply_all m cmds /\
    run_chunks rocks_apply_chunk m chunks_r = apply_all m cmds.
Proof. exact engines_equal_reference. Qed.
Print Assumptions C22_engines_equal_reference_for_every_chunking.

(* A CAS succeeds exactly when the current value equals the expected one ('absent' = None matches only None) ... *)
Theorem C22_cas_succeeds_iff_current_equals_expected :
  forall (m : kv) (k : key) (e : option value) (v : value),
    snd (apply m (Cas k e v)) = true <-> lookup m k = e.
Proof. exact cas_succeeds_iff. Qed.
Print Assumptions C22_cas_succeeds_iff_current_equals_expected.

(* ... a successful CAS writes the new value to that key only, a failed one changes nothing *)
Theorem C22_cas_effect :
  forall (m : kv) (k : key) (e : option value) (v : value) (k' : key),
    (lookup m k = e ->
       snd (apply m (Cas k e v)) = true /\
       lookup (fst (apply m (Cas k e v))) k' = if bytes_eqb k k' then Some v else lookup m k') /\
    (lookup m k <> e -> apply m (Cas k e v) = (m, false)).
Proof. exact cas_semantics. Qed.
Print Assumptions C22_cas_effect.

Theorem C22_put_effect :
  forall (m : kv) (k : key) (v : value) (k' : key),
    snd (apply m (Put k v)) = true /\
    lookup (fst (apply m (Put k v))) k' = if bytes_eqb k k' then Some v else lookup m k'.
Proof. exact put_semantics. Qed.
Print Assumptions C22_put_effect.

Theorem C22_delete_effect :
  forall (m : kv) (k : key) (k' : key),
    snd (apply m (Del k)) = true /\
    lookup (fst (apply m (Del k))) k' = if bytes_eqb k k' then None else lookup m k'.
Proof. exact del_semantics. Qed.
Print Assumptions C22_delete_effect.

(* Reads after any run (either engine, any chunking) from the empty store: the flags are the reference flags,
   get is the reference lookup, get_multi is positionally aligned with the requested keys, scan_prefix returns exactly
   the bindings whose key starts with the prefix, each key once. ([scan_prefix] is the File engine's scan and the
   RocksDB engine's scan for every non-empty prefix, see the next statement.) *)
Theorem C22_reads_of_any_run :
  forall (cmds : list cmd) (chunks : list (list cmd)) (step : kv -> list cmd -> kv * list bool),
    step = file_apply_chunk \/ step = rocks_apply_chunk ->
    concat chunks = cmds ->
    let st := fst (run_chunks step [] chunks) in
    let ref := fst (apply_all [] cmds) in
    snd (run_chunks step [] chunks) = snd (apply_all [] cmds) /\
    (forall k, get st k = lookup ref k) /\
    (forall ks, length (get_multi st ks) = length ks /\
                forall i, (i < length ks)%nat -> nth i (get_multi st ks) None = lookup ref (nth i ks [])) /\
    (forall p k v, In (k, v) (scan_prefix st p) <-> lookup ref k = Some v /\ is_prefix p k = true) /\
    (forall p, NoDup (map fst (scan_prefix st p))).
Proof. exact reads_of_any_run. Qed.
Print Assumptions C22_reads_of_any_run.

Theorem C22_scan_engines_agree_on_nonempty_prefix :
  forall (m : kv) (p : bytes), p <> [] -> rocks_scan m p = file_scan m p.
Proof. exact rocks_scan_nonempty. Qed.
Print Assumptions C22_scan_engines_agree_on_nonempty_prefix.

(* The faithful model violates "File and RocksDB agree ... through scan_prefix" on the EMPTY prefix: RocksDB's
   scan_prefix short-circuits to no entries, the File engine returns every binding. Replayed on the real code this is
   the known finding  scan-empty-prefix-engines-differ. *)
Theorem C22_scan_empty_prefix_refuted :
  exists cmds, file_scan (fst (run_chunks file_apply_chunk [] [cmds])) [] <>
               rocks_scan (fst (run_chunks rocks_apply_chunk [] [cmds])) [].
Proof. exact scan_empty_prefix_refuted. Qed.
Print Assumptions C22_scan_empty_prefix_refuted.
