(* PLog — the plain indexed log: a purge boundary plus a contiguous list of entries, with the Raft
   append / conflict-truncate / purge rules written in the most direct way. This is the specification
   the buffered log (BufLog.v) is proved to refine (property C19) and on which the follower-side half
   of C08 is stated. *)
From Coq Require Import NArith List Bool.
From DE Require Import Val BufLog.
Import ListNotations.
Open Scope N_scope.

Record plog := { pb_idx : N; pb_term : N; pents : list entry }.
Definition plog0 : plog := {| pb_idx := 0; pb_term := 0; pents := [] |}.

(* indexes of [es] are first, first+1, ... *)
Fixpoint contig (first : N) (es : list entry) : Prop :=
  match es with [] => True | e :: es' => e_idx e = first /\ contig (first + 1) es' end.
Fixpoint contigb (first : N) (es : list entry) : bool :=
  match es with [] => true | e :: es' => (e_idx e =? first) && contigb (first + 1) es' end.
(* terms are non-decreasing along the list and not below [lo] *)
Fixpoint terms_mono (lo : N) (es : list entry) : Prop :=
  match es with [] => True | e :: es' => lo <= e_term e /\ terms_mono (e_term e) es' end.

(* CHANGED (C19): third conjunct added.  A purge boundary at index 0 means "nothing purged" and then
   carries term 0 (as in plog0 / buf0); without it the state {pb_idx=0; pb_term=5; pents=[]}
   (reachable by OPurge 0 5) is p_wf, and the request OFilter 0 0 [(1,term 1)] leads out of p_wf. *)
Definition p_wf (p : plog) : Prop :=
  contig (pb_idx p + 1) (pents p) /\ terms_mono (N.max 1 (pb_term p)) (pents p) /\
  (pb_idx p = 0 -> pb_term p = 0).

Definition p_last_idx (p : plog) : N :=
  match last_entry (pents p) with Some e => e_idx e | None => pb_idx p end.
Definition p_last_term (p : plog) : N :=
  match last_entry (pents p) with Some e => e_term e | None => pb_term p end.
Definition p_first_idx (p : plog) : N := match pents p with e :: _ => e_idx e | [] => 0 end.
Definition p_last_entry_id (p : plog) : N := match last_entry (pents p) with Some e => e_idx e | None => 0 end.

Definition p_term_at (p : plog) (i : N) : option N :=
  match lookup (pents p) i with
  | Some e => Some (e_term e)
  | None => if (0 <? pb_idx p) && (i =? pb_idx p) then Some (pb_term p) else None
  end.

Definition p_last_log_id (p : plog) : option (N * N) :=
  match last_entry (pents p) with
  | Some e => Some (e_idx e, e_term e)
  | None => if 0 <? pb_idx p then Some (pb_idx p, pb_term p) else None
  end.

Definition p_first_index_for_term (p : plog) (t : N) : option N := first_with_term (pents p) t.
Definition p_last_index_for_term (p : plog) (t : N) : option N := last_with_term (pents p) t.
Definition p_range (p : plog) (lo hi : N) : list entry := range (pents p) lo hi.

(* leader/new entries at the tail *)
Definition p_append (p : plog) (es : list entry) : plog :=
  {| pb_idx := pb_idx p; pb_term := pb_term p; pents := pents p ++ es |}.

(* the Raft follower rule: drop the prefix of the request that the log already holds with the same
   term; if something is left, truncate the log from its first index and append it *)
Fixpoint drop_agreeing (p : plog) (es : list entry) : list entry :=
  match es with
  | [] => []
  | e :: es' => match p_term_at p (e_idx e) with
                | Some t => if (t =? e_term e) && (e_idx e <=? p_last_idx p) then drop_agreeing p es' else es
                | None => es
                end
  end.

Definition p_prev_matches (p : plog) (prev pterm : N) : bool :=
  ((prev =? 0) && (pterm =? 0)) ||
  match p_term_at p prev with Some t => t =? pterm | None => false end.

Definition p_filter_append (p : plog) (prev pterm : N) (es : list entry) : plog * option (N * N) :=
  if p_prev_matches p prev pterm then
    match drop_agreeing p es with
    | [] => (p, lid_of (last_entry es))
    | d :: rest =>
        ({| pb_idx := pb_idx p; pb_term := pb_term p;
            pents := filter (fun e => e_idx e <? e_idx d) (pents p) ++ d :: rest |},
         lid_of (last_entry es))
    end
  else (p, p_last_log_id p).

Definition p_purge (p : plog) (cidx cterm : N) : plog :=
  {| pb_idx := cidx; pb_term := cterm; pents := filter (fun e => cidx <? e_idx e) (pents p) |}.

(* reset_internal keeps the purge boundary (as the code does) *)
Definition p_reset (p : plog) : plog := {| pb_idx := pb_idx p; pb_term := pb_term p; pents := [] |}.

Definition p_step (p : plog) (o : op) : plog * val :=
  match o with
  | OAppend es => (p_append p es, VL [])
  | OFilter pr t es => let '(p', r) := p_filter_append p pr t es in (p', vlid r)
  | OPurge i t => (p_purge p i t, VL [])
  | OReset => (p_reset p, VL [])
  | OAlloc _ => (p, VL [])
  end.

(* ---- which operations a Raft role issues ("Raft-shaped"), relative to the plain log ---- *)
(* CHANGED (C19): log indexes are u64 in the code.  The model uses unbounded N, and the conflict
   truncation of the code is remove_range(d ..= u64::MAX), so the refinement needs the bound. *)
Definition U64_MAX : N := 18446744073709551615.
Definition idx_bounded (es : list entry) : Prop := forall e, In e es -> e_idx e <= U64_MAX.
Definition consistent_with (p : plog) (es : list entry) : Prop :=
  forall e e', In e es -> In e' (pents p) -> e_idx e = e_idx e' -> e_term e = e_term e' -> e = e'.

Definition shaped (p : plog) (o : op) : Prop :=
  match o with
  | OAppend es => es <> [] /\ contig (p_last_idx p + 1) es /\ terms_mono (N.max 1 (p_last_term p)) es /\
      idx_bounded es (* CHANGED (C19): added *)
  | OFilter prev pterm es =>
      contig (prev + 1) es /\ terms_mono (N.max 1 pterm) es /\
      idx_bounded es /\ (* CHANGED (C19): added *)
      (prev = 0 -> pterm = 0) /\
      ((prev = 0 /\ pterm = 0) ->
         (* the reset branch of the code: only a refinement of the Raft rule when the request
            covers the whole local log and agrees with it entry by entry where terms agree *)
         pb_idx p = 0 /\ (es <> [] \/ pents p = []) /\
         (forall e', In e' (pents p) -> exists e, In e es /\ e_idx e = e_idx e') /\
         consistent_with p es)
  | OPurge cidx cterm =>
      1 <= cidx /\ (* CHANGED (C19): added; a snapshot boundary is a real log index *)
      pb_idx p <= cidx /\ (forall e, In e (pents p) -> e_idx e = cidx -> e_term e = cterm) /\
      (p_last_idx p < cidx -> p_last_term p <= cterm) /\ 1 <= cterm /\
      (forall e, In e (pents p) -> e_idx e <= cidx -> e_term e <= cterm) /\
      (forall e, In e (pents p) -> cidx < e_idx e -> cterm <= e_term e)
  | OReset => True
  | OAlloc c => 0 < c
  end.

(* the abstraction function: forget every cache *)
Definition abs (b : buf) : plog := {| pb_idx := pg_idx b; pb_term := pg_term b; pents := ents b |}.

(* the buffered log's observable answers, as one record of functions, and the spec's *)
Definition answers_b (b : buf) (i t lo hi : N) :=
  (b_entry_term b i, b_last_log_id b, bmin b, bmax b, aget (tfirst b) t, aget (tlast b) t, range (ents b) lo hi).
Definition answers_p (p : plog) (i t lo hi : N) :=
  (p_term_at p i, p_last_log_id p, p_first_idx p, p_last_entry_id p,
   p_first_index_for_term p t, p_last_index_for_term p t, p_range p lo hi).

(* ---- executable side, used by the search: the spec run on the implementation's op sequence ---- *)
Fixpoint terms_monob (lo : N) (es : list entry) : bool :=
  match es with [] => true | e :: es' => (lo <=? e_term e) && terms_monob (e_term e) es' end.
Definition is_nil {A} (l : list A) : bool := match l with [] => true | _ => false end.

Definition shaped_b (p : plog) (o : op) : bool :=
  match o with
  | OAppend es => negb (is_nil es) && contigb (p_last_idx p + 1) es && terms_monob (N.max 1 (p_last_term p)) es &&
      forallb (fun e => e_idx e <=? U64_MAX) es (* CHANGED (C19) *)
  | OFilter prev pterm es =>
      contigb (prev + 1) es && terms_monob (N.max 1 pterm) es &&
      forallb (fun e => e_idx e <=? U64_MAX) es && (* CHANGED (C19) *)
      (negb (prev =? 0) || (pterm =? 0)) &&
      (negb ((prev =? 0) && (pterm =? 0)) ||
         ((pb_idx p =? 0) && (negb (is_nil es) || is_nil (pents p)) &&
          forallb (fun e' => existsb (fun e => e_idx e =? e_idx e') es) (pents p) &&
          forallb (fun e => forallb (fun e' => negb ((e_idx e =? e_idx e') && (e_term e =? e_term e')) || entry_eqb e e') (pents p)) es))
  | OPurge cidx cterm =>
      (1 <=? cidx) && (* CHANGED (C19) *)
      (pb_idx p <=? cidx) &&
      forallb (fun e => negb (e_idx e =? cidx) || (e_term e =? cterm)) (pents p) &&
      (negb (p_last_idx p <? cidx) || (p_last_term p <=? cterm)) && (1 <=? cterm) &&
      forallb (fun e => negb (e_idx e <=? cidx) || (e_term e <=? cterm)) (pents p) &&
      forallb (fun e => negb (cidx <? e_idx e) || (cterm <=? e_term e)) (pents p)
  | OReset => true
  | OAlloc c => 0 <? c
  end.

Definition p_observe (p : plog) (qmax tmax : N) : val :=
  let idxs := map N.of_nat (seq 0 (S (N.to_nat qmax))) in
  let terms := map N.of_nat (seq 0 (S (N.to_nat tmax))) in
  VL [ VN (p_first_idx p); VN (p_last_entry_id p); vlid (p_last_log_id p);
       VL (map (fun i => vopt (p_term_at p i)) idxs);
       VL (map (fun t => vopt (p_first_index_for_term p t)) terms);
       VL (map (fun t => vopt (p_last_index_for_term p t)) terms);
       VL (map ventry (p_range p 0 qmax));
       VL (map ventry (p_range p 2 (qmax - 1))) ].

(* property oracle for C19 on the implementation's outputs: as long as the op sequence is
   Raft-shaped (w.r.t. the spec state), every op result (except id allocation, which the plain log
   does not have) and every observation equals the spec's *)
Fixpoint spec_agrees_from (p : plog) (qmax tmax : N) (ops : list op) (outs : list val) : bool :=
  match ops, outs with
  | o :: ops', out :: outs' =>
      if shaped_b p o then
        let '(p', r) := p_step p o in
        (match o with OAlloc _ => true | _ => val_eqb r (vnth out 0) end) &&
        val_eqb (p_observe p' qmax tmax) (vnth out 1) &&
        spec_agrees_from p' qmax tmax ops' outs'
      else true
  | [], [] => true
  | _, _ => false
  end.
Definition spec_agrees (inp out : val) : bool :=
  spec_agrees_from plog0 (vn (vnth inp 0)) (vn (vnth inp 1)) (map op_of_val (vl (vnth inp 2))) (vl out).

(* how many leading ops of the sequence are shaped (reported as input distribution) *)
Fixpoint shaped_prefix (p : plog) (ops : list op) : N :=
  match ops with
  | [] => 0
  | o :: ops' => if shaped_b p o then 1 + shaped_prefix (fst (p_step p o)) ops' else 0
  end.
