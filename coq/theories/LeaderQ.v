(* LeaderQ — executable model of the leader's client bookkeeping in raft_role/leader_state.rs as coded
   (push_client_cmd, flush_cmd_buffers, process_batch / unified_write_and_linear_read,
   execute_and_process_raft_rpc Phase 2/3, drain_pending_client_writes, handle_apply_completed,
   handle_log_flushed, handle_append_result (commit + quorum part, one voting peer), tick (heartbeat
   flush + deadline sweeps), drain_read_buffer, the FatalError arm, handle_join_cluster) and of the
   non-leader default RaftRoleState::push_client_cmd of role_state.rs.
   Every client request carries a ghost id (allocated from a counter); responses are logged as
   (id, kind, aux).  The log is modelled as the list of (term, request id) appended at last+1
   (precondition named in C29: BufferedRaftLog allocates last_entry_id+1).  No proofs here. *)
From Coq Require Import NArith List Bool.
From DE Require Import Val.
Import ListNotations.
Open Scope N_scope.

(* response kinds *)
Definition K_WOK := 1.        (* ClientResponse Success, Write(succeeded = aux) *)
Definition K_ROK := 2.        (* read served from the local state machine *)
Definition K_NOTLEADER := 3.  (* Status failed_precondition "Not leader" *)
Definition K_INVALID := 4.    (* Status invalid_argument *)
Definition K_EXHAUSTED := 5.  (* Status resource_exhausted *)
Definition K_DEADLINE := 6.   (* Status deadline_exceeded *)
Definition K_UNAVAIL := 7.    (* Status unavailable (stepped down / LeaderNotReady) *)
Definition K_PROPFAIL := 8.   (* ClientResponse error ProposeFailed *)
Definition K_TERMOUT := 9.    (* ClientResponse error TermOutdated *)
Definition K_INTERNAL := 10.  (* Status internal (fatal error) *)
Definition K_DROPPED := 11.   (* sender dropped with the role object, no message *)
Definition K_SCANOK := 12.
Definition K_JOINOK := 13.

Definition rsp := (N * N * N)%type.   (* id, kind, aux *)

(* policies: 1 linearizable, 2 lease, 3 eventual; requested 0 = none *)
Definition P_LIN := 1. Definition P_LEASE := 2. Definition P_EV := 3.

Record cfg := {
  c_maxw : N; c_maxr : N;        (* backpressure.max_pending_writes / reads (0 = unlimited) *)
  c_T : N;                       (* general_raft_timeout_duration_in_ms *)
  c_H : N;                       (* rpc_append_entries_clock_in_ms (heartbeat) *)
  c_J : N;                       (* membership.verify_leadership_persistent_timeout *)
  c_default : N; c_override : bool;
  c_single : bool                (* single-voter cluster; otherwise leader + one voting peer *)
}.

Record batch := { b_end : N; b_start : N; b_ids : list N; b_dl : N }.

Record lq := {
  q_cfg : cfg;
  q_leader : bool;                     (* the LeaderState object is alive and serving *)
  q_term : N;
  q_log : list (N * option N);         (* entry at index i+1: (term, ghost id of the client write) *)
  q_commit : N; q_applied : N; q_match : N;
  q_lease : bool; q_noop : bool;
  q_now : N; q_hb : N;
  q_pbuf : list N;                     (* propose_buffer *)
  q_linbuf : list N; q_leaseq : list N; q_evq : list N;
  q_pcw : list batch;                  (* pending_client_writes, keyed by b_end *)
  q_pwa : list (N * N);                (* pending_write_apply: log index -> id *)
  q_preads : list (N * (N * list N));  (* pending_reads: read_index -> (deadline, ids) *)
  q_please : list (N * N);             (* pending_lease_reads: (id, deadline) *)
  q_pca : list (N * (N * N));          (* pending_commit_actions (NodeJoin only): index -> (deadline, id) *)
  q_flags : list (N * bool);           (* ghost: apply result delivered for index *)
  q_resp : list rsp;
  q_next : N
}.

Definition last (s : lq) : N := N.of_nat (length (q_log s)).
Definition entry_at (s : lq) (i : N) : option (N * option N) :=
  if i =? 0 then None else nth_error (q_log s) (N.to_nat (i - 1)).

(* ---- field updates ---- *)
Definition upd (s : lq) leader term log commit applied mtch lease now hb pbuf linbuf leaseq evq pcw pwa preads please pca flags resp next : lq :=
  {| q_cfg := q_cfg s; q_leader := leader; q_term := term; q_log := log; q_commit := commit; q_applied := applied;
     q_match := mtch; q_lease := lease; q_noop := q_noop s; q_now := now; q_hb := hb; q_pbuf := pbuf; q_linbuf := linbuf;
     q_leaseq := leaseq; q_evq := evq; q_pcw := pcw; q_pwa := pwa; q_preads := preads; q_please := please;
     q_pca := pca; q_flags := flags; q_resp := resp; q_next := next |}.

Definition answer (s : lq) (rs : list rsp) : lq :=
  upd s (q_leader s) (q_term s) (q_log s) (q_commit s) (q_applied s) (q_match s) (q_lease s) (q_now s) (q_hb s)
      (q_pbuf s) (q_linbuf s) (q_leaseq s) (q_evq s) (q_pcw s) (q_pwa s) (q_preads s) (q_please s) (q_pca s)
      (q_flags s) (q_resp s ++ rs) (q_next s).
Definition all_kind (k : N) (ids : list N) : list rsp := map (fun i => (i, k, 0)) ids.

Definition set_next (s : lq) n :=
  upd s (q_leader s) (q_term s) (q_log s) (q_commit s) (q_applied s) (q_match s) (q_lease s) (q_now s) (q_hb s)
      (q_pbuf s) (q_linbuf s) (q_leaseq s) (q_evq s) (q_pcw s) (q_pwa s) (q_preads s) (q_please s) (q_pca s)
      (q_flags s) (q_resp s) n.
Definition set_bufs (s : lq) pbuf linbuf leaseq evq :=
  upd s (q_leader s) (q_term s) (q_log s) (q_commit s) (q_applied s) (q_match s) (q_lease s) (q_now s) (q_hb s)
      pbuf linbuf leaseq evq (q_pcw s) (q_pwa s) (q_preads s) (q_please s) (q_pca s) (q_flags s) (q_resp s) (q_next s).
Definition set_log (s : lq) log :=
  upd s (q_leader s) (q_term s) log (q_commit s) (q_applied s) (q_match s) (q_lease s) (q_now s) (q_hb s)
      (q_pbuf s) (q_linbuf s) (q_leaseq s) (q_evq s) (q_pcw s) (q_pwa s) (q_preads s) (q_please s) (q_pca s)
      (q_flags s) (q_resp s) (q_next s).
Definition set_pend (s : lq) pcw pwa preads please pca :=
  upd s (q_leader s) (q_term s) (q_log s) (q_commit s) (q_applied s) (q_match s) (q_lease s) (q_now s) (q_hb s)
      (q_pbuf s) (q_linbuf s) (q_leaseq s) (q_evq s) pcw pwa preads please pca (q_flags s) (q_resp s) (q_next s).
Definition set_vol (s : lq) leader term commit applied mtch lease now hb flags :=
  upd s leader term (q_log s) commit applied mtch lease now hb
      (q_pbuf s) (q_linbuf s) (q_leaseq s) (q_evq s) (q_pcw s) (q_pwa s) (q_preads s) (q_please s) (q_pca s)
      flags (q_resp s) (q_next s).
Definition set_commit (s : lq) c := set_vol s (q_leader s) (q_term s) c (q_applied s) (q_match s) (q_lease s) (q_now s) (q_hb s) (q_flags s).
Definition set_lease (s : lq) b := set_vol s (q_leader s) (q_term s) (q_commit s) (q_applied s) (q_match s) b (q_now s) (q_hb s) (q_flags s).
Definition set_hb (s : lq) h := set_vol s (q_leader s) (q_term s) (q_commit s) (q_applied s) (q_match s) (q_lease s) (q_now s) h (q_flags s).

(* ---- read policy ---- *)
(* LeaderState::determine_read_policy *)
Definition leader_policy (c : cfg) (req : N) : N :=
  if (negb (req =? 0)) && c_override c then req else c_default c.
(* non-leader RaftRoleState::push_client_cmd (Read): Some policy = serve under it, None = reject NotLeader *)
Definition nonleader_policy (c : cfg) (req : N) : option N :=
  if (negb (req =? 0)) && c_override c then (if req =? P_EV then Some P_EV else None)
  else if c_default c =? P_EV then Some P_EV else None.

Definition full (limit : N) (len : nat) : bool := (0 <? limit) && (limit <=? N.of_nat len).

(* ---- client commands ---- *)
(* wkind: 0 put, 1 delete, 2 cas, 3 = request without command *)
Definition push_write (s : lq) (wkind : N) : lq :=
  let id := q_next s in
  let s := set_next s (id + 1) in
  if q_leader s then
    if full (c_maxw (q_cfg s)) (length (q_pbuf s)) then answer s [(id, K_EXHAUSTED, 0)]
    else if wkind =? 3 then answer s [(id, K_INVALID, 0)]
    else set_bufs s (q_pbuf s ++ [id]) (q_linbuf s) (q_leaseq s) (q_evq s)
  else answer s [(id, K_NOTLEADER, 0)].

Definition push_read (s : lq) (req : N) : lq :=
  let id := q_next s in
  let s := set_next s (id + 1) in
  let c := q_cfg s in
  if q_leader s then
    let p := leader_policy c req in
    if p =? P_LIN then
      if full (c_maxr c) (length (q_linbuf s)) then answer s [(id, K_EXHAUSTED, 0)]
      else set_bufs s (q_pbuf s) (q_linbuf s ++ [id]) (q_leaseq s) (q_evq s)
    else if p =? P_LEASE then
      if full (c_maxr c) (length (q_leaseq s)) then answer s [(id, K_EXHAUSTED, 0)]
      else set_bufs s (q_pbuf s) (q_linbuf s) (q_leaseq s ++ [id]) (q_evq s)
    else
      if full (c_maxr c) (length (q_evq s)) then answer s [(id, K_EXHAUSTED, 0)]
      else set_bufs s (q_pbuf s) (q_linbuf s) (q_leaseq s) (q_evq s ++ [id])
  else
    match nonleader_policy c req with
    | Some p => answer s [(id, K_ROK, p)]
    | None => answer s [(id, K_NOTLEADER, 0)]
    end.

Definition push_scan (s : lq) : lq :=
  let id := q_next s in
  let s := set_next s (id + 1) in
  if q_leader s then answer s [(id, K_SCANOK, 0)] else answer s [(id, K_NOTLEADER, 0)].

(* ---- maps ---- *)
Definition pcw_insert (b : batch) (l : list batch) : list batch :=
  filter (fun x => negb (b_end x =? b_end b)) l ++ [b].
Fixpoint pwa_remove (k : N) (l : list (N * N)) : list (N * N) :=
  match l with [] => [] | (k', v) :: l' => if k' =? k then pwa_remove k l' else (k', v) :: pwa_remove k l' end.
Definition pwa_insert (k v : N) (l : list (N * N)) : list (N * N) := pwa_remove k l ++ [(k, v)].
Fixpoint pwa_get (k : N) (l : list (N * N)) : option N :=
  match l with [] => None | (k', v) :: l' => if k' =? k then Some v else pwa_get k l' end.
Fixpoint preads_add (ri dl : N) (ids : list N) (l : list (N * (N * list N))) : list (N * (N * list N)) :=
  match l with
  | [] => [(ri, (dl, ids))]
  | (k, (d, xs)) :: l' => if k =? ri then (k, (d, xs ++ ids)) :: l' else (k, (d, xs)) :: preads_add ri dl ids l'
  end.

(* ---- execute_and_process_raft_rpc ---- *)
(* payload ids are appended to the log at last+1..; Phase 2 registers the batch; Phase 3 routes reads *)
Definition exec_rpc (s : lq) (wids : list N) (reads : list N) : lq :=
  let start := last s + 1 in
  let s1 := set_log s (q_log s ++ map (fun i => (q_term s, Some i)) wids) in
  let s2 := match wids with
            | [] => s1
            | _ => set_pend s1 (pcw_insert {| b_end := start + N.of_nat (length wids) - 1; b_start := start;
                                              b_ids := wids; b_dl := q_now s + c_T (q_cfg s) |} (q_pcw s1))
                            (q_pwa s1) (q_preads s1) (q_please s1) (q_pca s1)
            end in
  match reads with
  | [] => s2
  | _ =>
    if negb (q_noop s2) then answer s2 (all_kind K_UNAVAIL reads)
    else
      let ri := q_commit s2 in
      if (c_single (q_cfg s2) || q_lease s2) && (ri <=? q_applied s2) then answer s2 (map (fun i => (i, K_ROK, P_LIN)) reads)
      else set_pend s2 (q_pcw s2) (q_pwa s2) (preads_add ri (q_now s2 + c_T (q_cfg s2)) reads (q_preads s2)) (q_please s2) (q_pca s2)
  end.

Definition reset_hb (s : lq) : lq := set_hb s (q_now s + c_H (q_cfg s)).

(* process_lease_read *)
Definition lease_read (s : lq) (id : N) : lq :=
  if q_lease s then answer s [(id, K_ROK, P_LEASE)]
  else if c_single (q_cfg s) then answer (set_lease s true) [(id, K_ROK, P_LEASE)]
  else set_pend s (q_pcw s) (q_pwa s) (q_preads s) (q_please s ++ [(id, q_now s + c_T (q_cfg s))]) (q_pca s).

(* flush_cmd_buffers *)
Definition flush (s : lq) : lq :=
  if negb (q_leader s) then s else
  let w := q_pbuf s in let r := q_linbuf s in
  let s1 := match w, r with
            | [], [] => s
            | _ :: _, [] => exec_rpc (reset_hb (set_bufs s [] [] (q_leaseq s) (q_evq s))) w []
            | _, _ => exec_rpc (set_bufs s [] [] (q_leaseq s) (q_evq s)) w r
            end in
  let lq0 := q_leaseq s1 in let ev := q_evq s1 in
  let s2 := fold_left lease_read lq0 (set_bufs s1 (q_pbuf s1) (q_linbuf s1) [] []) in
  answer s2 (map (fun i => (i, K_ROK, P_EV)) ev).

(* ---- commit ---- *)
(* drain_pending_client_writes: batches with end <= c move their senders to pending_write_apply at start+i *)
Fixpoint place (start : N) (ids : list N) (pwa : list (N * N)) : list (N * N) :=
  match ids with [] => pwa | i :: ids' => place (start + 1) ids' (pwa_insert start i pwa) end.
Definition drain_pcw (s : lq) (c : N) : lq :=
  let done := filter (fun b => b_end b <=? c) (q_pcw s) in
  let rest := filter (fun b => negb (b_end b <=? c)) (q_pcw s) in
  set_pend s rest (fold_left (fun pwa b => place (b_start b) (b_ids b) pwa) done (q_pwa s)) (q_preads s) (q_please s) (q_pca s).
(* drain_commit_actions (NodeJoin) *)
Definition drain_pca (s : lq) (c : N) : lq :=
  let done := filter (fun e => fst e <=? c) (q_pca s) in
  let rest := filter (fun e => negb (fst e <=? c)) (q_pca s) in
  answer (set_pend s (q_pcw s) (q_pwa s) (q_preads s) (q_please s) rest) (map (fun e => (snd (snd e), K_JOINOK, 0)) done).
Definition serve_preads (s : lq) (upto : N) : lq :=
  let done := filter (fun e => fst e <=? upto) (q_preads s) in
  let rest := filter (fun e => negb (fst e <=? upto)) (q_preads s) in
  answer (set_pend s (q_pcw s) (q_pwa s) rest (q_please s) (q_pca s))
         (flat_map (fun e => map (fun i => (i, K_ROK, P_LIN)) (snd (snd e))) done).
Definition drain_please (s : lq) : lq :=
  answer (set_pend s (q_pcw s) (q_pwa s) (q_preads s) [] (q_pca s)) (map (fun e => (fst e, K_ROK, P_LEASE)) (q_please s)).

(* calculate_majority_matched_index with one voting peer: median of [match, last] = the smaller one *)
Definition majority (s : lq) : option N :=
  let m := N.min (q_match s) (last s) in
  if m <? q_commit s then None
  else match entry_at s m with Some (t, _) => if t =? q_term s then Some m else None | None => None end.
Definition new_commit (s : lq) : option N :=
  match majority s with Some m => if q_commit s <? m then Some m else None | None => None end.
Definition advance (s : lq) (c : N) : lq := drain_pca (drain_pcw (set_commit s c) c) c.

(* handle_append_result, success ack of the voting peer at the leader's term *)
Definition ack (s : lq) (m : N) : lq :=
  if negb (q_leader s) || c_single (q_cfg s) then s else
  let s := if q_match s <? m then set_vol s (q_leader s) (q_term s) (q_commit s) (q_applied s) m (q_lease s) (q_now s) (q_hb s) (q_flags s) else s in
  let s := match new_commit s with Some c => advance s c | None => s end in
  match majority s with
  | Some _ => serve_preads (drain_please (set_lease s true)) (q_applied s)
  | None => s
  end.

(* handle_log_flushed *)
Definition flushed (s : lq) : lq :=
  if negb (q_leader s) then s else
  if c_single (q_cfg s) then
    if q_commit s <? last s then drain_please (set_lease (advance s (last s)) true) else s
  else match new_commit s with Some c => advance s c | None => s end.

(* handle_apply_completed: results for the next committed indexes, flag per index *)
Fixpoint apply_results (idx : N) (flags : list bool) (pwa : list (N * N)) (fl : list (N * bool)) (out : list rsp)
  : list (N * N) * list (N * bool) * list rsp :=
  match flags with
  | [] => (pwa, fl, out)
  | f :: flags' =>
      match pwa_get idx pwa with
      | Some id => apply_results (idx + 1) flags' (pwa_remove idx pwa) (fl ++ [(idx, f)]) (out ++ [(id, K_WOK, if f then 1 else 0)])
      | None => apply_results (idx + 1) flags' pwa (fl ++ [(idx, f)]) out
      end
  end.
Definition apply (s : lq) (flags : list bool) : lq :=
  let n := N.min (N.of_nat (length flags)) (q_commit s - q_applied s) in
  let flags := firstn (N.to_nat n) flags in
  let s1 := set_vol s (q_leader s) (q_term s) (q_commit s) (q_applied s + n) (q_match s) (q_lease s) (q_now s) (q_hb s) (q_flags s) in
  if negb (q_leader s) then s1 else
  match apply_results (q_applied s + 1) flags (q_pwa s) (q_flags s) [] with
  | (pwa, fl, out) =>
      let s2 := answer (set_pend (set_vol s1 (q_leader s1) (q_term s1) (q_commit s1) (q_applied s1) (q_match s1) (q_lease s1) (q_now s1) (q_hb s1) fl)
                                 (q_pcw s1) pwa (q_preads s1) (q_please s1) (q_pca s1)) out in
      serve_preads s2 (q_applied s2)
  end.

(* ---- tick ---- *)
Definition sweep (s : lq) : lq :=
  let now := q_now s in
  let exp_w := filter (fun b => b_dl b <=? now) (q_pcw s) in
  let exp_r := filter (fun e => fst (snd e) <=? now) (q_preads s) in
  let exp_l := filter (fun e => snd e <=? now) (q_please s) in
  let exp_j := filter (fun e => fst (snd e) <=? now) (q_pca s) in
  answer (set_pend s (filter (fun b => negb (b_dl b <=? now)) (q_pcw s)) (q_pwa s)
                     (filter (fun e => negb (fst (snd e) <=? now)) (q_preads s))
                     (filter (fun e => negb (snd e <=? now)) (q_please s))
                     (filter (fun e => negb (fst (snd e) <=? now)) (q_pca s)))
         (all_kind K_DEADLINE (flat_map b_ids exp_w) ++ all_kind K_DEADLINE (flat_map (fun e => snd (snd e)) exp_r)
          ++ all_kind K_DEADLINE (map fst exp_l) ++ all_kind K_DEADLINE (map (fun e => snd (snd e)) exp_j)).
Definition tick (s : lq) (dt : N) : lq :=
  let s := set_vol s (q_leader s) (q_term s) (q_commit s) (q_applied s) (q_match s) (q_lease s) (q_now s + dt) (q_hb s) (q_flags s) in
  if negb (q_leader s) then s else
  let s := if q_hb s <=? q_now s then
             let w := q_pbuf s in exec_rpc (reset_hb (set_bufs s [] (q_linbuf s) (q_leaseq s) (q_evq s))) w []
           else s in
  sweep s.

(* ---- leaving leadership ---- *)
(* handle_append_result with a higher term: drain_pending_writes_with_error(TermOutdated), revoke lease *)
Definition higher_term (s : lq) : lq :=
  if negb (q_leader s) then s else
  let s1 := set_vol s (q_leader s) (q_term s + 1) (q_commit s) (q_applied s) (q_match s) false (q_now s) (q_hb s) (q_flags s) in
  answer (set_pend s1 [] (q_pwa s1) (q_preads s1) (q_please s1) (q_pca s1)) (all_kind K_TERMOUT (flat_map b_ids (q_pcw s1))).
(* senders still held when the LeaderState object is dropped *)
Definition drop_all (s : lq) : lq :=
  let ids := q_pbuf s ++ q_linbuf s ++ q_leaseq s ++ q_evq s ++ flat_map b_ids (q_pcw s) ++ map snd (q_pwa s)
             ++ flat_map (fun e => snd (snd e)) (q_preads s) ++ map fst (q_please s) ++ map (fun e => snd (snd e)) (q_pca s) in
  let s1 := answer (set_pend (set_bufs s [] [] [] []) [] [] [] [] []) (all_kind K_DROPPED ids) in
  set_vol s1 false (q_term s1) (q_commit s1) (q_applied s1) (q_match s1) false (q_now s1) (q_hb s1) (q_flags s1).
(* BecomeFollower: drain_read_buffer, then the LeaderState is replaced *)
Definition step_down (s : lq) : lq :=
  if negb (q_leader s) then s else
  let rs := all_kind K_UNAVAIL (q_linbuf s) ++ all_kind K_UNAVAIL (q_leaseq s) ++ all_kind K_UNAVAIL (q_evq s)
            ++ all_kind K_UNAVAIL (flat_map (fun e => snd (snd e)) (q_preads s)) ++ all_kind K_UNAVAIL (map fst (q_please s))
            ++ all_kind K_NOTLEADER (q_pbuf s) ++ all_kind K_PROPFAIL (flat_map b_ids (q_pcw s)) in
  drop_all (answer (set_pend (set_bufs s [] [] [] []) [] (q_pwa s) [] [] (q_pca s)) rs).
(* InboundEvent::FatalError, then the Raft loop ends and the role object is dropped *)
Definition fatal (s : lq) : lq :=
  if negb (q_leader s) then s else
  let rs := all_kind K_INTERNAL (map snd (q_pwa s)) ++ all_kind K_INTERNAL (q_linbuf s)
            ++ all_kind K_INTERNAL (flat_map (fun e => snd (snd e)) (q_preads s))
            ++ all_kind K_INTERNAL (q_leaseq s) ++ all_kind K_INTERNAL (q_evq s) in
  drop_all (answer (set_pend (set_bufs s (q_pbuf s) [] [] []) (q_pcw s) [] [] (q_please s) (q_pca s)) rs).

(* handle_join_cluster on the leader (membership accepts the node): config entry + NodeJoin action *)
Definition join (s : lq) : lq :=
  let id := q_next s in
  let s := set_next s (id + 1) in
  if negb (q_leader s) then answer s [(id, K_NOTLEADER, 1)] else
  let s1 := set_log (reset_hb s) (q_log s ++ [(q_term s, None)]) in
  set_pend s1 (q_pcw s1) (q_pwa s1) (q_preads s1) (q_please s1)
           (filter (fun e => negb (fst e =? last s1)) (q_pca s1) ++ [(last s1, (q_now s + c_J (q_cfg s), id))]).

Inductive op :=
| OWrite (wkind : N) | ORead (req : N) | OScan | OJoin
| OFlush | OAck (m : N) | OFlushed | OApply (flags : list bool) | OTick (dt : N)
| OHigherTerm | OStepDown | OFatal.

Definition step (s : lq) (o : op) : lq :=
  match o with
  | OWrite k => push_write s k
  | ORead r => push_read s r
  | OScan => push_scan s
  | OJoin => join s
  | OFlush => flush s
  | OAck m => ack s m
  | OFlushed => flushed s
  | OApply fl => apply s fl
  | OTick dt => tick s dt
  | OHigherTerm => higher_term s
  | OStepDown => step_down s
  | OFatal => fatal s
  end.

Definition init (c : cfg) (noop : bool) : lq :=
  {| q_cfg := c; q_leader := true; q_term := 1; q_log := []; q_commit := 0; q_applied := 0; q_match := 0;
     q_lease := false; q_noop := noop; q_now := 0; q_hb := c_H c; q_pbuf := []; q_linbuf := []; q_leaseq := [];
     q_evq := []; q_pcw := []; q_pwa := []; q_preads := []; q_please := []; q_pca := []; q_flags := [];
     q_resp := []; q_next := 0 |}.
Definition run (s : lq) (ops : list op) : lq := fold_left step ops s.

(* ---- val glue ---- *)
Definition op_of_val (v : val) : op :=
  let k := vn (vnth v 0) in
  if k =? 0 then OWrite (vn (vnth v 1))
  else if k =? 1 then ORead (vn (vnth v 1))
  else if k =? 2 then OScan
  else if k =? 3 then OJoin
  else if k =? 4 then OFlush
  else if k =? 5 then OAck (vn (vnth v 1))
  else if k =? 6 then OFlushed
  else if k =? 7 then OApply (map vbool (vl (vnth v 1)))
  else if k =? 8 then OTick (vn (vnth v 1))
  else if k =? 9 then OHigherTerm
  else if k =? 10 then OStepDown
  else OFatal.

Fixpoint ins_rsp (r : rsp) (l : list rsp) : list rsp :=
  match l with
  | [] => [r]
  | x :: l' => if fst (fst r) <? fst (fst x) then r :: l else x :: ins_rsp r l'
  end.
Definition sort_rsp (l : list rsp) : list rsp := fold_left (fun acc r => ins_rsp r acc) l [].
Definition rsp_val (r : rsp) : val := VL [VN (fst (fst r)); VN (snd (fst r)); VN (snd r)].

Definition cfg_of_val (v : val) : cfg :=
  {| c_maxw := vn (vnth v 0); c_maxr := vn (vnth v 1); c_T := vn (vnth v 2); c_H := vn (vnth v 3); c_J := vn (vnth v 4);
     c_default := vn (vnth v 5); c_override := vbool (vnth v 6); c_single := vbool (vnth v 7) |}.

(* input: [cfg, noop, ops]; output per op: [[new responses sorted by id], commit, last index, [log ids of new entries]] *)
Definition observe (s s' : lq) : val :=
  VL [VL (map rsp_val (sort_rsp (skipn (length (q_resp s)) (q_resp s'))));
      VN (q_commit s'); VN (last s');
      VL (map (fun e => match snd e with Some i => VL [VN i] | None => VL [] end) (skipn (length (q_log s)) (q_log s')))].

Definition leaderq_probe (v : val) : val :=
  let s0 := init (cfg_of_val (vnth v 0)) (vbool (vnth v 1)) in
  VL (snd (fold_left (fun acc ov => let s' := step (fst acc) (op_of_val ov) in (s', snd acc ++ [observe (fst acc) s']))
                     (vl (vnth v 2)) (s0, []))).
