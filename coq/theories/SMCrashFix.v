(* SMCrashFix — the two state machines with the suggested repairs applied (see INTEGRATE.md of block smcrash), as
   executable models next to DE.SMCrash. Not a model of the code that exists: it backs the suggested fixes.
     RocksDB: apply_chunk puts last_applied_index/term into the same write batch as the data.
     File:    state.data and metadata.bin are replaced atomically (temp file + rename) and replay_wal advances
              last_applied to the highest entry index it replays (the index is already parsed from every record).
   No proofs here. *)
From Coq Require Import NArith List Bool.
From DE Require Import Val SMCrash.
Import ListNotations.
Open Scope N_scope.

(* ---------------------------------------------------------------- RocksDB, repaired *)
Definition rrun_op_fx (st : rstate) (o : op) : rstate :=
  match o with
  | OApply b => {| r_disk := {| r_kv := apply_all b (r_kv (r_disk st)); r_meta := Some (r_la st + N.of_nat (length b)) |};
                   r_la := r_la st + N.of_nat (length b) |}
  | OCkpt | OSave => rrun_op st o
  end.
Fixpoint rpoints_fx (st : rstate) (done : list cmd) (ops : list op) : list rpoint :=
  match ops with
  | [] => []
  | o :: r => {| rp_disk := r_disk (rrun_op_fx st o); rp_acked := done_after done o |}
              :: rpoints_fx (rrun_op_fx st o) (done_after done o) r
  end.
Definition rocks_crash_points_fx (ops : list op) : list rpoint :=
  {| rp_disk := r_disk rstate0; rp_acked := [] |} :: rpoints_fx rstate0 [] ops.

(* ---------------------------------------------------------------- File, repaired *)
Record fdisk_fx := { x_data : kv; x_meta : option N; x_wal : list (N * wrec) }.   (* WAL records carry the entry index *)
Record fstate_fx := { x_disk : fdisk_fx; x_kv : kv; x_la : N }.
Definition fstate_fx0 : fstate_fx := {| x_disk := {| x_data := kv0; x_meta := None; x_wal := [] |}; x_kv := kv0; x_la := 0 |}.

Fixpoint number (from : N) (w : list wrec) : list (N * wrec) :=
  match w with [] => [] | r :: w' => (from, r) :: number (from + 1) w' end.

Inductive fxstep :=
| XWal (b : list cmd) (j : nat)    (* the first j records of the chunk reach wal.log *)
| XMem (b : list cmd)
| XData                            (* write state.data.tmp, rename over state.data *)
| XMeta                            (* write metadata.bin.tmp, rename over metadata.bin *)
| XWalClear.
Definition xset (st : fstate_fx) (d : fdisk_fx) : fstate_fx := {| x_disk := d; x_kv := x_kv st; x_la := x_la st |}.
Definition xstep (st : fstate_fx) (m : fxstep) : fstate_fx :=
  let d := x_disk st in
  match m with
  | XWal b j => xset st {| x_data := x_data d; x_meta := x_meta d;
                           x_wal := x_wal d ++ number (x_la st + 1) (firstn j (wal_of (x_kv st) b)) |}
  | XMem b => {| x_disk := d; x_kv := apply_all b (x_kv st); x_la := x_la st + N.of_nat (length b) |}
  | XData => xset st {| x_data := x_kv st; x_meta := x_meta d; x_wal := x_wal d |}
  | XMeta => xset st {| x_data := x_data d; x_meta := Some (x_la st); x_wal := x_wal d |}
  | XWalClear => xset st {| x_data := x_data d; x_meta := x_meta d; x_wal := [] |}
  end.
Definition wal_hi (w : list (N * wrec)) : N := fold_left (fun m ir => N.max m (fst ir)) w 0.
(* FileStateMachine::new, repaired: replay, then last_applied := max (metadata, highest replayed index) *)
Definition xrecover (d : fdisk_fx) : kv * N :=
  (replay (map snd (x_wal d)) (x_data d), N.max (match x_meta d with Some n => n | None => 0 end) (wal_hi (x_wal d))).
Definition xsteps_of (o : op) : list fxstep :=
  match o with
  | OApply b => [XWal b (length b); XMem b]
  | OCkpt => [XData; XMeta; XWalClear]
  | OSave => [XMeta; XData; XMeta]
  end.
Definition xrun_op (st : fstate_fx) (o : op) : fstate_fx := fold_left xstep (xsteps_of o) st.
Record xpoint := { xp_disk : fdisk_fx; xp_acked : list cmd; xp_rest : list cmd }.
Definition xpoints_op (st : fstate_fx) (done : list cmd) (o : op) : list xpoint :=
  match o with
  | OApply b =>
      map (fun j => {| xp_disk := x_disk (xstep st (XWal b j)); xp_acked := done ++ firstn j b; xp_rest := skipn j b |})
          (seq 1 (length b))
  | OCkpt =>
      let s1 := xstep st XData in let s2 := xstep s1 XMeta in let s3 := xstep s2 XWalClear in
      map (fun s => {| xp_disk := x_disk s; xp_acked := done; xp_rest := [] |}) [s1; s2; s3]
  | OSave =>
      let s1 := xstep st XMeta in let s2 := xstep s1 XData in let s3 := xstep s2 XMeta in
      map (fun s => {| xp_disk := x_disk s; xp_acked := done; xp_rest := [] |}) [s1; s2; s3]
  end.
Fixpoint xpoints (st : fstate_fx) (done : list cmd) (ops : list op) : list xpoint :=
  match ops with
  | [] => []
  | o :: r => xpoints_op st done o ++ xpoints (xrun_op st o) (done_after done o) r
  end.
Definition file_crash_points_fx (ops : list op) : list xpoint :=
  {| xp_disk := x_disk fstate_fx0; xp_acked := []; xp_rest := [] |} :: xpoints fstate_fx0 [] ops.
